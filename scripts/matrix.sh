#!/bin/bash
# Runs every seeded change against every property's quick check (which checks catch which changes).
# Needs /repo exclusively.  Output: one line per change.
cd "$(dirname "$(readlink -f "$0")")/.." || exit 2
for d in seeded/*/; do
    k=$(basename "$d")
    [ -n "${ONLY:-}" ] && [[ ! " $ONLY " =~ " $k " ]] && continue
    r=$(scripts/try_mutant.sh "$d/patch.diff" 2>&1 | grep "CAUGHT-BY")
    echo "$k $r"
done
