#!/bin/bash
# Runs every seeded change against every property's quick check (which checks catch which changes).
# usage: matrix.sh [shards]        (default 4; ONLY="C01-m1 C02-r2m1 ..." restricts the changes;
#        OWN=1 runs each change against the check of the property it was written for only)
# Each shard works in its own scratch worktree of /repo (${MATRIX_TMP:-/tmp}/vmatrix-<n>) with its own build
# directory (harness/target-mx-<n>), so /repo itself is never modified; both are removed at the end.
# Output: one line per change, "<change> CAUGHT-BY: <properties whose quick check reports a violation>".
cd "$(dirname "$(readlink -f "$0")")/.." || exit 2
ROOT="$PWD"
N="${1:-4}"
TMP="${MATRIX_TMP:-/tmp}"
all=()
for d in seeded/*/; do
    k=$(basename "$d")
    [ -n "${ONLY:-}" ] && [[ ! " $ONLY " =~ " $k " ]] && continue
    all+=("$k")
done
pids=()
for i in $(seq 0 $((N - 1))); do
    (
        wt="$TMP/vmatrix-$i"
        git -C /repo worktree remove --force "$wt" >/dev/null 2>&1
        rm -rf "$wt"
        git -C /repo worktree add --detach "$wt" HEAD >/dev/null 2>&1 || { echo "shard $i: cannot create worktree $wt"; exit 2; }
        j=0
        for k in "${all[@]}"; do
            if [ $((j % N)) -eq "$i" ]; then
                own=""; [ "${OWN:-0}" = "1" ] && own="${k%%-*}"
                r=$(MUT_REPO="$wt" MUT_TARGET_DIR="$ROOT/harness/target-mx-$i" MUT_REPLAY_DIR="$TMP/vmatrix-replays-$i" scripts/try_mutant.sh "seeded/$k/patch.diff" $own 2>&1 | grep "CAUGHT-BY")
                echo "$k $r"
            fi
            j=$((j + 1))
        done
        git -C /repo worktree remove --force "$wt" >/dev/null 2>&1
        rm -rf "$wt" "$ROOT/harness/target-mx-$i" "$TMP/vmatrix-replays-$i"
    ) &
    pids+=($!)
done
for p in "${pids[@]}"; do wait "$p"; done
git -C /repo worktree prune
