#!/bin/bash
cd "$(dirname "$0")/.." || exit 2
for id in C16 C06 C15 C01 C03 C02 C18; do
  st=$(date +%s); out=$(./run.sh check $id thorough 2>&1); code=$?
  echo "$id exit=$code $(( $(date +%s) - st ))s $(echo "$out" | grep -E '^C[0-9]+ ' | tail -1)"
  echo "$out" | grep -E "VIOLATION|KNOWN-FINDING|HARNESS|INCONCLUSIVE" | cut -c1-300
done
