#!/usr/bin/env python3
"""Renders the output of scripts/matrix.sh (lines '<change> CAUGHT-BY: C01 C07 ...') as a markdown table."""
import sys, re, json, os
rows = []
for log in sys.argv[1:]:
    for line in open(log, errors='replace'):
        m = re.match(r'^(C\d+-(?:r\d)?m\d) CAUGHT-BY:\s*(.*)$', line.strip())
        if m:
            rows.append((m.group(1), m.group(2).split()))
seen = {}
for k, v in rows:
    v = [x for x in v if x != 'none']
    seen[k] = sorted(set(seen.get(k, [])) | set(v))   # union over all logs given
def key(k):
    p, r = k.split('-')
    rnd = 1 if r.startswith('m') else int(r[1])
    return (p, rnd, r)
print("| change | written against | needs (short) | quick checks that report a violation |")
print("|---|---|---|---|")
root = os.path.join(os.path.dirname(os.path.abspath(__file__)), '..', 'seeded')
for k in sorted(seen, key=key):
    meta = {}
    try:
        meta = json.load(open(os.path.join(root, k, 'meta.json')))
    except Exception:
        pass
    needs = meta.get('needs_to_manifest', '')
    needs = needs.split(';')[0]
    if len(needs) > 110:
        needs = needs[:107] + '…'
    caught = seen[k]
    own = k.split('-')[0]
    cells = ' '.join(('**%s**' % c) if c == own else c for c in caught) if caught and caught != ['none'] else '— none —'
    print("| %s | %s | %s | %s |" % (k, own, needs.replace('|', '/'), cells))
n = len(seen)
own_caught = sum(1 for k, v in seen.items() if k.split('-')[0] in v)
any_caught = sum(1 for k, v in seen.items() if v and v != ['none'])
print()
print("%d changes; %d reported by the check of the property they were written against, %d by at least one check." % (n, own_caught, any_caught))
