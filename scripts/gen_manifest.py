#!/usr/bin/env python3
"""Generates /verif/MANIFEST.json from the table below (kept in one place so ids, commands and
evidence paths cannot drift apart)."""
import json, os, subprocess

ROOT = os.path.dirname(os.path.dirname(os.path.abspath(__file__)))

def repo_commits():
    out = subprocess.run(["git", "-C", "/repo", "log", "--format=%H %s"], capture_output=True, text=True).stdout
    return [l.split()[0] for l in out.splitlines() if " verif hooks" in l]

# id -> (category, technique, level text, design ref, level note)
CHECKS = {
 "C20": ("exploration",
         "property-based testing: algebraic laws over generated (a,d) pairs + exhaustive boundary grid",
         "All arithmetic/ordering laws of the statement are evaluated against u64 arithmetic computed by the harness on an exhaustive 61x61 boundary grid and on hundreds of thousands of generated pairs biased to the wrap and to d near 2^31; u32 x u32 cannot be enumerated, so this is exploration, which suits a pure function with a handful of branch points.",
         "DESIGN.md §4 C20",
         "Trusts u64 arithmetic of the harness. The antipode d = 2^31 is judged for antisymmetry only."),
}

NOT_YET = {}

def main():
    props = [json.loads(l) for l in open(os.path.join(ROOT, "properties.jsonl"))]
    checks = []
    not_applicable = []
    for p in props:
        pid = p["id"]
        if pid in CHECKS:
            cat, tech, text, ref, note = CHECKS[pid]
            checks.append({
                "property_id": pid,
                "quick_cmd": f"./run.sh check {pid} quick",
                "thorough_cmd": f"./run.sh check {pid} thorough",
                "evidence_file": f"/verif/evidence/{pid}.json",
                "replay_cmd_template": "./run.sh replay {path}",
                "engine": "vkit",
                "level_claimed": {"category": cat, "text": text, "design_ref": ref},
                "level_note": note,
                "technique": tech,
            })
        else:
            not_applicable.append({"property_id": pid,
                                   "reason": NOT_YET.get(pid, "check not built yet in this revision of /verif (planned in DESIGN.md §4); not claimed until it runs")})
    manifest = {
        "version": 1,
        "setup_cmd": "./run.sh build",
        "hooks": {
            "guard": "cargo feature `verif-hooks` of crate rml_rtmp (default features stay empty)",
            "enable": "the harness depends on rml_rtmp by path with features = [\"verif-hooks\"] (harness/Cargo.toml), so every check rebuilds /repo's working tree with the hooks compiled in",
            "baseline_off_cmd": "./scripts/baseline.sh",
            "source_commits": repo_commits(),
            "add_only": True,
        },
        "engines": [
            {"name": "vkit", "path": "/verif/harness",
             "serves_properties": sorted(CHECKS.keys()),
             "kind_free_text": "Rust crate: proptest-driven generators with shrinking, independent reference models (chunk codec, AMF0, RTMP message bodies, SHA-256/HMAC, session state machines) as oracles, bounded-exhaustive enumerations, child-process isolation with allocation cap and watchdog, replay files"},
        ],
        "checks": checks,
        "not_applicable": not_applicable,
        "notes": "All commands run from /verif. Exit 0 = held on everything explored, 1 = VIOLATION line printed, 2 = harness trouble (never a violation). VERIF_SEED selects the PRNG seed; VERIF_THREADS the shard count. Known findings: /verif/known_findings.txt.",
    }
    with open(os.path.join(ROOT, "MANIFEST.json"), "w") as f:
        json.dump(manifest, f, indent=1)
        f.write("\n")

if __name__ == "__main__":
    main()
