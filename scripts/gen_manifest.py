#!/usr/bin/env python3
"""Generates /verif/MANIFEST.json from the table below (kept in one place so ids, commands and
evidence paths cannot drift apart)."""
import json, os, subprocess

ROOT = os.path.dirname(os.path.dirname(os.path.abspath(__file__)))

def repo_commits():
    out = subprocess.run(["git", "-C", "/repo", "log", "--format=%H %s"], capture_output=True, text=True).stdout
    return [l.split()[0] for l in out.splitlines() if " verif hooks" in l]

# id -> (category, technique, level text, design ref, level note)
CHECKS = {
 "C01": ("exploration",
   "property-based testing: round-trip (inverse) oracle over palette-generated message sequences and generated stream partitions",
   "Library serializer -> library deserializer (honouring every decoded Set Chunk Size) must return exactly the input sequence under a generated partition of the bytes; every accepted message must yield a non-empty packet. The generator draws fields from a per-case palette so all four header formats, extended timestamps on first and continuation chunks, zero-length messages, droppable predecessors and chunk-size changes occur in a measured fraction of cases (class table in the evidence); fixed cases cover 64 KiB and 16 MiB payloads at chunk sizes 1..2^31-1. The space is infinite: exploration with shrinking is the level this technique reaches.",
   "DESIGN.md §4 C01",
   "Self-consistency only (C07 judges conformance). Type id 1 enters only through set_max_chunk_size. Sequences are at most 12 (quick) / 40 (thorough) operations."),
 "C02": ("exploration",
   "property-based testing: validity oracle over the joint history of a real client and server session under generated schedules",
   "A real ClientSession and ServerSession exchange their output bytes under a generated delivery schedule and fragmentation, configurations from boundary pools (chunk sizes 1..2^31-1, windows 0..2^32-1), media scripts with payloads 0..70000 bytes and arbitrary timestamps; every item must arrive exactly once, in order, byte-exact, tagged with the requested application and key, and the stop must raise the matching finished event.",
   "DESIGN.md §4 C02",
   "The driver queues all packets of a call before reacting to its events (documented ordering). One publish or play per connection; the application accepts everything."),
 "C03": ("exploration",
   "property-based testing + child-process isolation: generated raw / well-framed / adversarial-header inputs, oracle = returns, no unwinding (overflow checks on), bounded heap, watchdog",
   "Three generators (raw and mutated bytes; well-framed messages with arbitrary bodies (among them AMF0 bodies whose count / length fields announce up to 2^32-1 and hold a few bytes) and argument lists interleaved with application calls; adversarial chunk headers) drive five targets (handshake, deserializer, message decoder, server and client sessions in four preparatory states). Cases run in worker processes with a counting allocator (peak heap <= 256 x bytes fed + 17 MiB, hard cap) and a watchdog, and again in-process so that a failure is shrunk. Absence of panics cannot be established by search; the generators are measured to reach every handler state.",
   "DESIGN.md §4 C03",
   "Built with overflow-checks and debug-assertions. AMF0 nesting depth <= 4 here (C14 owns depth). u32 acknowledgement counters need ~4 GiB per session to overflow: stated, not checked. Hang = 60 s watchdog on cases that take microseconds."),
 "C04": ("exploration",
   "property-based testing: round-trip oracle with structural (bitwise / unordered-map) equality",
   "serialize either errs or its bytes decode, consuming everything, to the identical list (numbers bit-for-bit, objects as maps). Boundary lengths 65534..70000 for strings and names, NaN payloads, -0, nesting to depth 4. The empty property name (D10) was carried as a known finding and is now repaired in /repo (94e5ae5); the dedicated sub-check stays and enforces it.",
   "DESIGN.md §4 C04",
   "An Err from the encoder is never a C04 violation (C12/C19 assert that representable values are not refused)."),
 "C05": ("exploration",
   "property-based testing + exhaustive single-cut enumeration: invariants over the exchange history of two handshakes",
   "Client and server handshakes (or one side replaced by a digest-less original-handshake peer written in the harness) are driven against each other under generated partitions and interleavings with 0..200000 bytes of trailing application data; invariants: exactly 3073 bytes emitted per side starting with 3, no completion before 3073 peer bytes, trailing data handed back once and unmodified. Every single cut position 0..3113 per direction is enumerated exhaustively.",
   "DESIGN.md §4 C05",
   "After Completed the driver stops calling process_bytes (documented). Random fill comes from the seeded hook; the oracle holds for any fill."),
 "C06": ("exploration",
   "differential testing against a specification-derived reference encoder/decoder (RefChunkEnc / RefChunkDec)",
   "A foreign sender written from RTMP 1.0 section 5.3.1 encodes generated message sequences with any csid 2..65599 (1/2/3-byte forms), any legal header format, extended timestamps, zero-length messages and in-band chunk-size changes; the reference decoder self-checks the stream, then the library must decode exactly the generated messages under a generated partition.",
   "DESIGN.md §4 C06",
   "RefChunkEnc/Dec are the trusted transcription of the specification; their mutual disagreement is a harness error (exit 2), never a violation. Messages one after another (interleaving is C16)."),
 "C07": ("exploration",
   "differential testing: library serializer output parsed by an independent strict specification decoder",
   "The concatenated packets of generated sequences are parsed by RefChunkDec in strict mode (legal minimal csids, extended field exactly at 0xFFFFFF and never below, no format 1/2 inside a message, Set Chunk Size legal and on csid 2 / stream 0) and must yield exactly the input messages; packet boundaries must coincide with message boundaries. This is the check that sees symmetric encoder/decoder deviations the self-consistent suite cannot.",
   "DESIGN.md §4 C07",
   "RefChunkDec is trusted. A format-0 continuation chunk identical to its message is accepted (specification: SHOULD use format 3)."),
 "C08": ("fault_enumeration",
   "fault enumeration inside property-based testing: all 2^k drop subsets (k <= 10) per generated sequence, oracle = strict reference decoder + library decoder",
   "For every generated sequence every subset of its droppable packets is removed (exhaustive for k <= 10, 256 sampled above) and the survivors must decode to exactly the surviving messages under both the strict reference decoder and the library deserializer.",
   "DESIGN.md §4 C08",
   "Exhaustive in the drop dimension per sequence, exploratory over sequences. Non-droppable packets are always delivered."),
 "C09": ("exploration",
   "stateful model-based testing: ModelServer (three-valued, from the statement) + metamorphic twin runs + bounded-exhaustive enumeration of short histories",
   "Generated histories over 17 operation kinds (peer messages incl. malformed argument lists, application calls incl. stale/forged request ids) are executed against a real ServerSession; ModelServer predicts the prescribed observations per step and follows the implementation where the statement is silent; refused calls are re-checked by a twin run without them. All sequences of length <= 4 (quick) / <= 5 (thorough) over a 13-letter alphabet are enumerated from four starting states.",
   "DESIGN.md §4 C09",
   "The model is written from the statement, not the code; don't-cares are listed in DESIGN.md. An Err from handle_input ends a history (callers close the connection)."),
 "C10": ("exploration",
   "stateful model-based testing: ModelClient + metamorphic twin runs + bounded-exhaustive enumeration of short histories",
   "Generated histories over 20 operation kinds (application calls and server messages with outstanding / answered / unknown transaction ids, status codes, media on active or other streams) run against a real ClientSession; ModelClient judges each clause of the statement; operations that must not change anything are removed in a twin run whose other observations must be identical. All sequences of length <= 4 / <= 5 over a 14-letter alphabet from four starting states are enumerated.",
   "DESIGN.md §4 C10",
   "Model from the statement; don't-cares listed in DESIGN.md. An Err from handle_input ends a history only once the peer has announced an acknowledgement window (a due Acknowledgement is lost with the Err); before that the history goes on and the failed message must not have changed the state (DESIGN.md 9.3-11)."),
 "C11": ("exploration",
   "exhaustive enumeration of digest offsets (728 x schemes x roles) with generated fill, oracle = independent SHA-256/HMAC implementation of the FP9 rules",
   "The hook steers the library's random fill so every own-packet digest offset 0..727 is produced for both roles, and the harness builds peer packets with a valid digest at every offset of both schemes; RefHmac (own SHA-256/HMAC, self-tested against FIPS/RFC vectors) verifies digest and response signature; digest-less packets must be echoed exactly. Exhaustive in the offset dimension, random in the remaining bytes.",
   "DESIGN.md §4 C11",
   "RefHmac and the clean-room FP9 description are the trusted base. coverage.exhaustive_subchecks lists the enumerated dimensions."),
 "C12": ("exploration",
   "differential testing against RefAmf0 (independent AMF0 encoder + strict ordered decoder) in both directions, exhaustive marker sweep, truncation at every cut point",
   "Encoder direction: library bytes must parse under the strict reference decoder, denote the input, and be byte-identical to the reference re-encoding of their own content. Decoder direction: reference encodings with arbitrary property order, ECMA arrays with any count field and Boolean bytes 0..255 must decode to the value they denote. All 256 markers x 4 positions are enumerated; every truncation point of small encodings must be rejected or decode to a tree-prefix.",
   "DESIGN.md §4 C12",
   "RefAmf0 is the trusted transcription of the AMF0 specification. Property name \"\" and marker 9 in value position are outside the judged domain."),
 "C13": ("exploration",
   "differential testing against RefMsg (message bodies written from the specification) + round-trip + exhaustive type-id sweep",
   "Every message variant with boundary-pool fields converts to a payload whose type id and body equal the reference encoding (AMF0 bodies judged through RefAmf0) and back to an equal message; reference-encoded bodies incl. AMF3 aliases 15/17 decode to what they denote; all 256 type ids with arbitrary bodies pass through or are judged against the fixed layouts; chunk sizes around 2^31 are rejected in both directions.",
   "DESIGN.md §4 C13",
   "RefMsg trusted. Control bodies longer than their layout are not judged."),
 "C14": ("exploration",
   "structure-aware adversarial generation, each case decoded in an isolated worker process on a 2 MiB stack with a counting allocator and watchdog",
   "Nests of array/object/ECMA headers to depth 100000 (len/5 at the size cap), count fields up to 2^32-1, strings announcing more than is present, floods of small values and runs of one unit (every single byte value, stray end markers, empty containers with huge counts, random units) up to 1 MiB (quick) / 16 MiB (thorough), mutated valid encodings; the worker must survive and return, with peak heap <= 192 x len + 128 KiB. Process death is attributed to the announced case and confirmed in a fresh worker.",
   "DESIGN.md §4 C14",
   "2 MiB = Rust's default thread stack. Termination by 120 s watchdog, three orders of magnitude above the normal cost."),
 "C15": ("exploration",
   "metamorphic testing: the same stream under four partitions through fresh deserializers / sessions must give identical results and identical error position",
   "Valid library streams, foreign streams, raw bytes and mutants of them are delivered in one call, byte by byte and under two generated partitions; the deserializer's message sequence, error position and variant must agree (one sub-check hands 12..40 MiB of valid stream over in ONE read and compares with 65535-byte reads); for sessions (four preparatory states each) every call must return exactly the byte-by-byte results of its byte range and the failing call must be the one containing the byte at which byte-by-byte delivery fails.",
   "DESIGN.md §4 C15",
   "Error position is judged at the granularity the API has. Acknowledgements and session-generated timestamps are masked (C17/C18 own them)."),
 "C16": ("exploration",
   "differential testing against a per-chunk-stream reference reassembler over generated chunk interleavings, plus the delivery-timing clause",
   "2..4 multi-chunk messages on distinct chunk streams, reference-encoded and merged by a generated interleaving, behind a sequential prefix on several chunk streams (and, in one sub-check, on 63..4097 of them); expected deliveries come from RefChunkDec; each message must also be out in the call that supplies its last chunk; one sub-check sends Set Chunk Size messages between the chunks of messages in flight (which found D17, repaired in e7d3b33). The defect this check first reported (D11: one reassembly buffer shared by all chunk streams) was carried as a known finding and is now repaired in /repo (c2ab1c5); every interleaving is enforced, nothing is set aside.",
   "DESIGN.md §4 C16, §9.2",
   "The signature classification of the old finding stays in the code, so a regression is named; known_findings.txt lists it as fixed, which suppresses nothing."),
 "C17": ("exploration",
   "model-based testing: ModelAck counter model driven by the layout of generated inbound streams; W = 1..64 enumerated",
   "For both session kinds, every W in 1..=64 and a pool of larger windows, generated valid inbound streams with the window message at a generated position and re-announcements, and call sizes from {0,1,W-1,W,W+1,2W,random}: the model predicts in which calls an Acknowledgement appears and its value; conservation and 'fewer than W outstanding' are asserted after every call.",
   "DESIGN.md §4 C17",
   "Windows above 20 MB (incl. 2^31-1 .. 2^32-1) are only checked for the absence of acknowledgements (filling them needs gigabytes per case). A re-announcement replaces W and does not reset the count. Calls answered with Err still count their bytes; a case ends at an Err in a call that owed an Acknowledgement."),
 "C18": ("fault_enumeration",
   "fault enumeration (all 2^k drop subsets, k <= 8) over session histories with a scripted session clock; oracle = strict reference decoder + RefMsg",
   "Histories from the C09/C10 generators plus media-heavy variants are run with the session clock shifted across 2^24 and 2^32 ms by the hook; every packet returned by every call is recorded; the packets minus every drop subset must form a well-formed chunk stream of well-formed messages on the expected message streams with control messages on stream 0 / chunk stream 2, and the droppable mark only where asked.",
   "DESIGN.md §4 C18",
   "Uptime is simulated by moving start_time into the past; the ms computation and u32 truncation are the library's own. An Err from handle_input ends a history."),
 "C19": ("exploration",
   "boundary-value generation, each case in an isolated worker with allocation cap and watchdog; oracle = refused with Err, or accepted and working (C01 / C02 oracles)",
   "Chunk sizes, windows, bandwidths, version / tcUrl / app strings, payload lengths and AMF0 string lengths around every protocol limit through serializer, deserializer, both session configurations and the AMF0 encoder. Out-of-protocol values must produce an Err from some call and leave the object working; accepted values must yield a working round-trip or client/server mini session under three deliveries (large pieces, byte by byte, pieces of 7). A non-terminating call hits the allocation cap or the watchdog in the worker.",
   "DESIGN.md §4 C19",
   "Termination observed by allocation cap (3 GiB) and a 120 s watchdog; the slowest accepted case takes under 2 s."),
 "C20": ("exploration",
   "property-based testing: algebraic laws over generated (a,d) pairs + exhaustive boundary grid",
   "All arithmetic / ordering laws of the statement are evaluated against u64 arithmetic computed by the harness on an exhaustive 61x61 boundary grid and on generated pairs biased to the wrap and to d near 2^31, through every operator surface (Ord, PartialOrd, PartialOrd<u32> both ways, ==, max/min). u32 x u32 cannot be enumerated, so this is exploration, which suits a pure function with a handful of branch points.",
   "DESIGN.md §4 C20",
   "Trusts the harness's u64 arithmetic. At the antipode d = 2^31 only antisymmetry and != Equal are asserted."),
}

NOT_YET = {}

FUZZ = {'C01': "chunk_roundtrip (byte-level, structured decoding of the fuzzer's bytes)", 'C02': "pt_interop (pass-through: the fuzzer's bytes drive the same proptest strategy and oracle)", 'C03': 'deser, message, server, client, handshake (byte-level)', 'C04': 'pt_amf0_roundtrip (pass-through)', 'C05': 'pt_handshake (pass-through)', 'C06': 'foreign_stream (byte-level, structured decoding)', 'C08': 'pt_drop_subsets (pass-through)', 'C09': 'pt_model_server (pass-through)', 'C10': 'pt_model_client (pass-through)', 'C12': 'amf0_diff (byte-level)', 'C13': 'pt_msg_roundtrip (pass-through)', 'C14': 'amf0_decode (byte-level, peak-heap bound on a 2 MiB stack)', 'C15': 'split (byte-level)', 'C16': 'pt_interleave (pass-through)', 'C17': 'pt_ack (pass-through)', 'C18': 'pt_session_emit (pass-through)'}

def main():
    props = [json.loads(l) for l in open(os.path.join(ROOT, "properties.jsonl"))]
    checks = []
    not_applicable = []
    for p in props:
        pid = p["id"]
        if pid in CHECKS:
            cat, tech, text, ref, note = CHECKS[pid]
            if pid in FUZZ:
                tech += "; thorough tier adds coverage-guided fuzzing (libFuzzer via cargo-fuzz, same oracle inside the target): " + FUZZ[pid]
            checks.append({
                "property_id": pid,
                "quick_cmd": f"./run.sh check {pid} quick",
                "thorough_cmd": f"./run.sh check {pid} thorough",
                "evidence_file": f"/verif/evidence/{pid}.json",
                "replay_cmd_template": "./run.sh replay {path}",
                "engine": "vkit",
                "level_claimed": {"category": cat, "text": text, "design_ref": ref},
                "level_note": note,
                "technique": tech,
            })
        else:
            not_applicable.append({"property_id": pid,
                                   "reason": NOT_YET.get(pid, "check not built yet in this revision of /verif (planned in DESIGN.md §4); not claimed until it runs")})
    manifest = {
        "version": 1,
        "setup_cmd": "./run.sh build",
        "hooks": {
            "guard": "cargo feature `verif-hooks` of crate rml_rtmp (default features stay empty)",
            "enable": "the harness depends on rml_rtmp by path with features = [\"verif-hooks\"] (harness/Cargo.toml), so every check rebuilds /repo's working tree with the hooks compiled in",
            "baseline_off_cmd": "./scripts/baseline.sh",
            "source_commits": repo_commits(),
            "add_only": True,
        },
        "engines": [
            {"name": "vkit", "path": "/verif/harness",
             "serves_properties": sorted(CHECKS.keys()),
             "kind_free_text": "Rust crate: proptest-driven generators with shrinking, independent reference models (chunk codec, AMF0, RTMP message bodies, SHA-256/HMAC, session state machines) as oracles, bounded-exhaustive enumerations, child-process isolation with allocation cap and watchdog, replay files"},
            {"name": "vkit-fuzz", "path": "/verif/fuzz",
             "serves_properties": sorted(FUZZ.keys()),
             "kind_free_text": "cargo-fuzz crate: twenty libFuzzer targets that are three-line shims around vkit::targets (ten byte-level, ten pass-through targets driving the properties' own proptest strategies and oracles); run by the thorough tier through ./run.sh, artifacts become replay files (.bin); committed seed / regression corpus in /verif/corpus is also replayed by the quick tier"},
            {"name": "proptest-vendored", "path": "/verif/vendor/proptest",
             "serves_properties": sorted(CHECKS.keys()),
             "kind_free_text": "proptest 1.11.0 from the offline registry cache with a patch of a few lines to its pass-through generator (vendor/README.md); the harness depends on it by path"},
        ],
        "checks": checks,
        "not_applicable": not_applicable,
        "notes": "All commands run from /verif. Exit 0 = held on everything explored, 1 = VIOLATION line printed, 2 = harness trouble (never a violation). VERIF_SEED selects the PRNG seed; VERIF_THREADS the shard count. Findings: /verif/known_findings.txt (17 fixed, none open).",
    }
    with open(os.path.join(ROOT, "MANIFEST.json"), "w") as f:
        json.dump(manifest, f, indent=1)
        f.write("\n")

if __name__ == "__main__":
    main()
