#!/bin/bash
# Runs every registered check of one tier and validates the evidence files.
#   scripts/run_all.sh [quick|thorough]   (VERIF_SEED is passed through)
tier="${1:-quick}"
cd "$(dirname "$0")/.." || exit 2
rc=0
for id in $(python3 -c "import json;print(' '.join(c['property_id'] for c in json.load(open('MANIFEST.json'))['checks']))"); do
    start=$(date +%s.%N)
    out=$(./run.sh check "$id" "$tier" 2>&1); code=$?
    end=$(date +%s.%N)
    printf "%s exit=%d %.1fs  %s\n" "$id" "$code" "$(echo "$end - $start" | bc)" "$(echo "$out" | grep -E '^C[0-9]+ ' | tail -1)"
    echo "$out" | grep -E "VIOLATION|KNOWN-FINDING|HARNESS" | cut -c1-300
    [ $code -ne 0 ] && rc=1
done
python3-vt - <<'PY' || rc=1
import json, jsonschema, sys, glob
schema = json.load(open('/root/.vp/EVIDENCE.schema.json'))
bad = 0
for c in json.load(open('MANIFEST.json'))['checks']:
    try:
        jsonschema.validate(json.load(open(c['evidence_file'])), schema)
    except Exception as e:
        print("EVIDENCE INVALID", c['property_id'], str(e)[:200]); bad = 1
sys.exit(bad)
PY
exit $rc
