#!/bin/bash
# Confirms an independently written breaking change in a scratch worktree:
#   (a) demo passes on the clean tree, (b) existing suite passes with the change, (c) demo fails with it.
# usage: confirm_mutant.sh <worktree> <mutant-dir with patch.diff demo.rs notes.md>
set -u
WT="$1"; M="$2"
export CARGO_NET_OFFLINE=true
cd "$WT" || exit 2
git checkout -q -- . && git clean -qfd -e deliver
crate=rml_rtmp; dir=rtmp
if grep -qi "amf0/tests/demo.rs" "$M/notes.md" 2>/dev/null && ! grep -q "rml_rtmp" "$M/demo.rs"; then crate=rml_amf0; dir=amf0; fi
mkdir -p $dir/tests && cp "$M/demo.rs" $dir/tests/demo.rs
clean=$(cargo test --offline -p $crate --test demo 2>&1 | grep -E "^test result" | tail -1)
git apply "$M/patch.diff" || { echo "PATCH DOES NOT APPLY"; exit 2; }
mv $dir/tests/demo.rs /tmp/demo.rs.$$
suite=$(cargo test --workspace --no-fail-fast --offline 2>&1 | grep -E "^test result" | awk '{p+=$4; f+=$6} END {print "passed=" p " failed=" f}')
mv /tmp/demo.rs.$$ $dir/tests/demo.rs
mut=$(cargo test --offline -p $crate --test demo 2>&1 | grep -E "^test result" | tail -1)
git checkout -q -- . && git clean -qfd -e deliver
echo "crate=$crate"
echo "demo on clean tree : $clean"
echo "suite with mutant  : $suite"
echo "demo with mutant   : $mut"
