#!/bin/bash
# Runs the repository's own test suite with the verification guard OFF (default features).
# Prints "BASELINE passed=<n> failed=<m>"; exits 0 iff no test failed and the 186 pinned tests ran.
set -u
cd /repo || exit 2
export CARGO_NET_OFFLINE=true
out=$(cargo test --workspace --no-fail-fast --offline 2>&1)
passed=$(echo "$out" | grep -E '^test result:' | sed -E 's/.* ([0-9]+) passed.*/\1/' | paste -sd+ | bc)
failed=$(echo "$out" | grep -E '^test result:' | sed -E 's/.* ([0-9]+) failed.*/\1/' | paste -sd+ | bc)
unit=$(echo "$out" | grep -E '^test .* \.\.\. ok$' | grep -vc ' - ' )
echo "BASELINE passed=${passed:-0} failed=${failed:-0} unit_ok=${unit}"
if [ "${failed:-1}" != "0" ]; then echo "$out" | grep -E 'FAILED|failed|panicked' | head -40; exit 1; fi
if [ "${unit:-0}" -lt 186 ]; then echo "fewer than 186 unit tests passed"; echo "$out" | tail -30; exit 1; fi
exit 0
