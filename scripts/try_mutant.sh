#!/bin/bash
# Applies a seeded change to /repo, runs the given quick checks, restores /repo.
# usage: try_mutant.sh <patch.diff> [Cxx ...]      (default: all properties)
# MUT_REPO=<worktree of /repo> applies the change there instead (run.sh then builds against that tree through
# VERIF_REPO), which leaves /repo free; MUT_TARGET_DIR picks the build directory for that mode.
set -u
R="${MUT_REPO:-/repo}"
P="$(readlink -f "$1")"; shift
cd "$(dirname "$(readlink -f "$0")")/.." || exit 2
if [ "$R" != /repo ]; then export VERIF_REPO="$R" VERIF_TARGET_DIR="${MUT_TARGET_DIR:-$PWD/harness/target-mut}"; fi
if [ -n "$(git -C "$R" status --porcelain)" ]; then echo "$R is not clean"; exit 2; fi
git -C "$R" apply "$P" || { echo "patch does not apply"; exit 2; }
trap 'git -C "$R" checkout -q -- .; git -C "$R" clean -qfd' EXIT
props="$*"
[ -z "$props" ] && props=$(python3 -c "import json;print(' '.join(c['property_id'] for c in json.load(open('MANIFEST.json'))['checks']))")
RD="${MUT_REPLAY_DIR:-/tmp/mut-replays}"; mkdir -p "$RD"
caught=""
for id in $props; do
    out=$(VERIF_REPLAY_DIR="$RD" VERIF_EVIDENCE_DIR="$RD/evidence" ./run.sh check "$id" "${TIER:-quick}" 2>&1); code=$?
    line=$(echo "$out" | grep -A1 -m1 "VIOLATION" | tr '\n' ' ' | cut -c1-330)
    [ $code -eq 1 ] && caught="$caught $id"
    [ $code -ne 0 ] && echo "  $id exit=$code $line"
done
echo "CAUGHT-BY:${caught:- none}"
