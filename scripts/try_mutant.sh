#!/bin/bash
# Applies a seeded change to /repo, runs the given quick checks, restores /repo.
# usage: try_mutant.sh <patch.diff> [Cxx ...]      (default: all properties)
set -u
P="$(readlink -f "$1")"; shift
cd "$(dirname "$(readlink -f "$0")")/.." || exit 2
if [ -n "$(git -C /repo status --porcelain)" ]; then echo "/repo is not clean"; exit 2; fi
git -C /repo apply "$P" || { echo "patch does not apply"; exit 2; }
trap 'git -C /repo checkout -q -- .; git -C /repo clean -qfd' EXIT
props="$*"
[ -z "$props" ] && props=$(python3 -c "import json;print(' '.join(c['property_id'] for c in json.load(open('MANIFEST.json'))['checks']))")
mkdir -p /tmp/mut-replays
caught=""
for id in $props; do
    out=$(VERIF_ROOT_REPLAYS=/tmp/mut-replays ./run.sh check "$id" "${TIER:-quick}" 2>&1); code=$?
    line=$(echo "$out" | grep -A1 -m1 "VIOLATION" | tr '\n' ' ' | cut -c1-330)
    [ $code -eq 1 ] && caught="$caught $id"
    [ $code -ne 0 ] && echo "  $id exit=$code $line"
done
echo "CAUGHT-BY:${caught:- none}"
