//! RefAmf0 — an independent AMF0 encoder/decoder written from the AMF0 specification
//! (amf0-file-format-specification.pdf, sections 2.2–2.12).  It never calls the library.
//!
//! Values are kept as an *ordered* tree (objects are lists of pairs) so that property order and
//! the ECMA-array count field are explicit, which the library's HashMap-based value cannot express.

use rml_amf0::Amf0Value;
use serde::{Deserialize, Serialize};
use std::collections::HashMap;

/// A string described compactly: `unit` repeated `reps` times (boundary-length strings of 65535
/// bytes stay small in replay files).
#[derive(Clone, Debug, PartialEq, Eq, Hash, Serialize, Deserialize)]
pub struct S {
    pub unit: String,
    pub reps: u32,
}

impl S {
    pub fn lit<T: Into<String>>(s: T) -> S {
        S {
            unit: s.into(),
            reps: 1,
        }
    }
    pub fn rep<T: Into<String>>(unit: T, reps: u32) -> S {
        S {
            unit: unit.into(),
            reps,
        }
    }
    pub fn len(&self) -> usize {
        self.unit.len() * self.reps as usize
    }
    pub fn build(&self) -> String {
        self.unit.repeat(self.reps as usize)
    }
}

#[derive(Clone, Debug, PartialEq, Serialize, Deserialize)]
pub enum V {
    /// IEEE-754 bit pattern
    Num(u64),
    /// the raw byte on the wire; denotes `byte != 0`
    Bool(u8),
    Str(S),
    Obj(Vec<(S, V)>),
    /// ECMA array: (count field as written, pairs)
    Ecma(u32, Vec<(S, V)>),
    Arr(Vec<V>),
    /// strict array of `n` copies of one value (wide arrays stay small in replay files)
    ArrRep(Box<V>, u32),
    /// object with `n` properties named `<prefix><i>` holding Number(i)
    ObjRep(S, u32),
    /// `depth` containers nested inside each other (kinds chosen by `seed`: object {"k": x},
    /// strict array [x], object {"a": Null, "k": x}, and - when `wire` - ECMA array {"k": x}) around
    /// `leaf`; kept compact because replay files are JSON and serde_json stops at 128 levels
    Deep { depth: u32, seed: u32, wire: bool, leaf: Box<V> },
    Null,
    Undef,
}

pub const M_NUMBER: u8 = 0x00;
pub const M_BOOLEAN: u8 = 0x01;
pub const M_STRING: u8 = 0x02;
pub const M_OBJECT: u8 = 0x03;
pub const M_NULL: u8 = 0x05;
pub const M_UNDEFINED: u8 = 0x06;
pub const M_ECMA: u8 = 0x08;
pub const M_OBJECT_END: u8 = 0x09;
pub const M_STRICT_ARRAY: u8 = 0x0A;

/// true when every string / property name of the tree fits the 16-bit length AMF0 provides and
/// no property name is empty (an empty name is the object terminator on the wire)
/// The plain nested tree a `V::Deep` stands for (other nodes are returned as they are).
pub fn unfold(v: &V) -> V {
    match v {
        V::Deep { depth, seed, wire, leaf } => {
            let mut cur: V = (**leaf).clone();
            // kinds from the inside out; level i (0 = outermost) uses the i-th draw
            let mut kinds = Vec::with_capacity(*depth as usize);
            let mut x = *seed | 1;
            for _ in 0..*depth {
                x ^= x << 13;
                x ^= x >> 17;
                x ^= x << 5;
                kinds.push(x % if *wire { 4 } else { 3 });
            }
            for k in kinds.iter().rev() {
                cur = match k {
                    0 => V::Obj(vec![(S::lit("k"), cur)]),
                    1 => V::Arr(vec![cur]),
                    2 => V::Obj(vec![(S::lit("a"), V::Null), (S::lit("k"), cur)]),
                    _ => V::Ecma(1, vec![(S::lit("k"), cur)]),
                };
            }
            cur
        }
        other => other.clone(),
    }
}

/// Nesting index of the deepest value of the tree: a top-level value is at 0, the members of a
/// container one deeper than the container.  (The library documents a limit of 128.)
pub fn deepest(v: &V) -> usize {
    match v {
        V::Obj(p) | V::Ecma(_, p) => p.iter().map(|x| 1 + deepest(&x.1)).max().unwrap_or(0),
        V::Arr(a) => a.iter().map(|x| 1 + deepest(x)).max().unwrap_or(0),
        V::ArrRep(x, n) => if *n > 0 { 1 + deepest(x) } else { 0 },
        V::ObjRep(_, n) => if *n > 0 { 1 } else { 0 },
        V::Deep { depth, leaf, .. } => *depth as usize + deepest(leaf),
        _ => 0,
    }
}

pub fn representable(v: &V) -> bool {
    match v {
        V::Deep { leaf, .. } => representable(leaf),
        V::Str(s) => s.len() <= 0xFFFF,
        V::Obj(p) | V::Ecma(_, p) => p
            .iter()
            .all(|(k, v)| k.len() >= 1 && k.len() <= 0xFFFF && representable(v)),
        V::Arr(a) => a.iter().all(representable),
        V::ArrRep(v, _) => representable(v),
        V::ObjRep(p, _) => p.len() + 10 <= 0xFFFF,
        _ => true,
    }
}

fn put_u16_str(out: &mut Vec<u8>, s: &S) -> Result<(), String> {
    let n = s.len();
    if n > 0xFFFF {
        return Err(format!("string of {} bytes does not fit a u16 length", n));
    }
    out.extend_from_slice(&(n as u16).to_be_bytes());
    for _ in 0..s.reps {
        out.extend_from_slice(s.unit.as_bytes());
    }
    Ok(())
}

pub fn enc_value(v: &V, out: &mut Vec<u8>) -> Result<(), String> {
    match v {
        V::Num(bits) => {
            out.push(M_NUMBER);
            out.extend_from_slice(&bits.to_be_bytes());
        }
        V::Bool(b) => {
            out.push(M_BOOLEAN);
            out.push(*b);
        }
        V::Str(s) => {
            out.push(M_STRING);
            put_u16_str(out, s)?;
        }
        V::Obj(props) => {
            out.push(M_OBJECT);
            for (k, v) in props {
                put_u16_str(out, k)?;
                enc_value(v, out)?;
            }
            out.extend_from_slice(&[0, 0, M_OBJECT_END]);
        }
        V::Ecma(count, props) => {
            out.push(M_ECMA);
            out.extend_from_slice(&count.to_be_bytes());
            for (k, v) in props {
                put_u16_str(out, k)?;
                enc_value(v, out)?;
            }
            out.extend_from_slice(&[0, 0, M_OBJECT_END]);
        }
        V::Arr(items) => {
            out.push(M_STRICT_ARRAY);
            out.extend_from_slice(&(items.len() as u32).to_be_bytes());
            for i in items {
                enc_value(i, out)?;
            }
        }
        V::Deep { .. } => enc_value(&unfold(v), out)?,
        V::ArrRep(v, n) => {
            out.push(M_STRICT_ARRAY);
            out.extend_from_slice(&n.to_be_bytes());
            let mut one = Vec::new();
            enc_value(v, &mut one)?;
            for _ in 0..*n {
                out.extend_from_slice(&one);
            }
        }
        V::ObjRep(prefix, n) => {
            out.push(M_OBJECT);
            for i in 0..*n {
                put_u16_str(out, &S::lit(format!("{}{}", prefix.build(), i)))?;
                enc_value(&V::Num((i as f64).to_bits()), out)?;
            }
            out.extend_from_slice(&[0, 0, M_OBJECT_END]);
        }
        V::Null => out.push(M_NULL),
        V::Undef => out.push(M_UNDEFINED),
    }
    Ok(())
}

pub fn enc(values: &[V]) -> Result<Vec<u8>, String> {
    let mut out = Vec::new();
    for v in values {
        enc_value(v, &mut out)?;
    }
    Ok(out)
}

struct Rd<'a> {
    b: &'a [u8],
    pos: usize,
    max_depth: usize,
}

impl<'a> Rd<'a> {
    fn take(&mut self, n: usize) -> Result<&'a [u8], String> {
        if self.b.len() - self.pos < n {
            return Err(format!(
                "truncated: need {} bytes at offset {}, {} left",
                n,
                self.pos,
                self.b.len() - self.pos
            ));
        }
        let s = &self.b[self.pos..self.pos + n];
        self.pos += n;
        Ok(s)
    }
    fn u8(&mut self) -> Result<u8, String> {
        Ok(self.take(1)?[0])
    }
    fn u16(&mut self) -> Result<u16, String> {
        let s = self.take(2)?;
        Ok(u16::from_be_bytes([s[0], s[1]]))
    }
    fn u32(&mut self) -> Result<u32, String> {
        let s = self.take(4)?;
        Ok(u32::from_be_bytes([s[0], s[1], s[2], s[3]]))
    }
    fn string(&mut self) -> Result<S, String> {
        let n = self.u16()? as usize;
        let raw = self.take(n)?;
        let s = std::str::from_utf8(raw).map_err(|e| format!("invalid utf-8 at {}: {}", self.pos, e))?;
        Ok(S::lit(s))
    }
    fn pairs(&mut self, depth: usize) -> Result<Vec<(S, V)>, String> {
        let mut out = Vec::new();
        loop {
            let name = self.string()?;
            if name.len() == 0 {
                let m = self.u8()?;
                if m != M_OBJECT_END {
                    return Err(format!(
                        "empty property name followed by {:#04x} instead of the object-end marker at {}",
                        m, self.pos
                    ));
                }
                return Ok(out);
            }
            let v = self.value(depth + 1)?;
            out.push((name, v));
        }
    }
    fn value(&mut self, depth: usize) -> Result<V, String> {
        if depth > self.max_depth {
            return Err(format!("nesting deeper than {}", self.max_depth));
        }
        let m = self.u8()?;
        Ok(match m {
            M_NUMBER => {
                let s = self.take(8)?;
                let mut a = [0u8; 8];
                a.copy_from_slice(s);
                V::Num(u64::from_be_bytes(a))
            }
            M_BOOLEAN => V::Bool(self.u8()?),
            M_STRING => V::Str(self.string()?),
            M_OBJECT => V::Obj(self.pairs(depth)?),
            M_NULL => V::Null,
            M_UNDEFINED => V::Undef,
            M_ECMA => {
                let c = self.u32()?;
                V::Ecma(c, self.pairs(depth)?)
            }
            M_STRICT_ARRAY => {
                let c = self.u32()?;
                if c as usize > self.b.len() - self.pos {
                    return Err(format!("strict array announces {} elements, {} bytes left", c, self.b.len() - self.pos));
                }
                let mut items = Vec::new();
                for _ in 0..c {
                    items.push(self.value(depth + 1)?);
                }
                V::Arr(items)
            }
            other => return Err(format!("marker {:#04x} at offset {} is not one of 0,1,2,3,5,6,8,10", other, self.pos - 1)),
        })
    }
}

/// Strict, ordered decoder: every byte must be consumed, every structure complete.
/// Iterative nesting is bounded by the caller (the harness only feeds it library output and its
/// own encodings of bounded depth).
pub fn dec_strict(bytes: &[u8]) -> Result<Vec<V>, String> {
    dec_strict_bounded(bytes, 1_000)
}

/// Same, refusing nesting deeper than `max_depth` (the strict-array count is also checked
/// against the remaining input so a hostile count cannot make the reference itself allocate).
pub fn dec_strict_bounded(bytes: &[u8], max_depth: usize) -> Result<Vec<V>, String> {
    let mut rd = Rd { b: bytes, pos: 0, max_depth };
    let mut out = Vec::new();
    while rd.pos < bytes.len() {
        out.push(rd.value(0)?);
    }
    Ok(out)
}

/// The library value a reference tree denotes (ECMA array => Object, Bool byte != 0).
pub fn to_lib(v: &V) -> Amf0Value {
    match v {
        V::Num(bits) => Amf0Value::Number(f64::from_bits(*bits)),
        V::Bool(b) => Amf0Value::Boolean(*b != 0),
        V::Str(s) => Amf0Value::Utf8String(s.build()),
        V::Obj(p) | V::Ecma(_, p) => {
            let mut m = HashMap::new();
            for (k, v) in p {
                m.insert(k.build(), to_lib(v));
            }
            Amf0Value::Object(m)
        }
        V::Arr(a) => Amf0Value::StrictArray(a.iter().map(to_lib).collect()),
        V::Deep { .. } => to_lib(&unfold(v)),
        V::ArrRep(v, n) => Amf0Value::StrictArray(vec![to_lib(v); *n as usize]),
        V::ObjRep(prefix, n) => {
            let mut m = HashMap::new();
            for i in 0..*n {
                m.insert(format!("{}{}", prefix.build(), i), Amf0Value::Number(i as f64));
            }
            Amf0Value::Object(m)
        }
        V::Null => Amf0Value::Null,
        V::Undef => Amf0Value::Undefined,
    }
}

pub fn to_lib_list(vs: &[V]) -> Vec<Amf0Value> {
    vs.iter().map(to_lib).collect()
}

/// Reference tree for a library value (objects sorted by name, for stable reporting).
pub fn from_lib(v: &Amf0Value) -> V {
    match v {
        Amf0Value::Number(n) => V::Num(n.to_bits()),
        Amf0Value::Boolean(b) => V::Bool(*b as u8),
        Amf0Value::Utf8String(s) => V::Str(S::lit(s.clone())),
        Amf0Value::Object(m) => {
            let mut p: Vec<(S, V)> = m.iter().map(|(k, v)| (S::lit(k.clone()), from_lib(v))).collect();
            p.sort_by(|a, b| a.0.unit.cmp(&b.0.unit));
            V::Obj(p)
        }
        Amf0Value::StrictArray(a) => V::Arr(a.iter().map(from_lib).collect()),
        Amf0Value::Null => V::Null,
        Amf0Value::Undefined => V::Undef,
    }
}

/// Structural equality of library values: numbers bit-for-bit (NaN payloads, signed zero),
/// objects as unordered maps, strings byte-for-byte.
pub fn lib_eq(a: &Amf0Value, b: &Amf0Value) -> bool {
    match (a, b) {
        (Amf0Value::Number(x), Amf0Value::Number(y)) => x.to_bits() == y.to_bits(),
        (Amf0Value::Boolean(x), Amf0Value::Boolean(y)) => x == y,
        (Amf0Value::Utf8String(x), Amf0Value::Utf8String(y)) => x.as_bytes() == y.as_bytes(),
        (Amf0Value::Object(x), Amf0Value::Object(y)) => {
            x.len() == y.len()
                && x.iter().all(|(k, v)| match y.get(k) {
                    Some(w) => lib_eq(v, w),
                    None => false,
                })
        }
        (Amf0Value::StrictArray(x), Amf0Value::StrictArray(y)) => lib_list_eq(x, y),
        (Amf0Value::Null, Amf0Value::Null) => true,
        (Amf0Value::Undefined, Amf0Value::Undefined) => true,
        _ => false,
    }
}

pub fn lib_list_eq(a: &[Amf0Value], b: &[Amf0Value]) -> bool {
    a.len() == b.len() && a.iter().zip(b.iter()).all(|(x, y)| lib_eq(x, y))
}

/// "got is a tree-prefix of full": what decoding a truncated encoding of `full` may legitimately
/// yield.  Primitives must be equal; a list/array may stop early and its last element may itself
/// be a tree-prefix; an object may only contain pairs of the original whose values are
/// tree-prefixes.  Anything else is "data that was not there".
pub fn tree_prefix(got: &Amf0Value, full: &Amf0Value) -> bool {
    match (got, full) {
        (Amf0Value::StrictArray(g), Amf0Value::StrictArray(f)) => list_prefix(g, f),
        (Amf0Value::Object(g), Amf0Value::Object(f)) => g.iter().all(|(k, v)| match f.get(k) {
            Some(w) => tree_prefix(v, w),
            None => false,
        }),
        _ => lib_eq(got, full),
    }
}

pub fn list_prefix(got: &[Amf0Value], full: &[Amf0Value]) -> bool {
    if got.len() > full.len() {
        return false;
    }
    for (i, g) in got.iter().enumerate() {
        let last = i + 1 == got.len();
        if last {
            if !tree_prefix(g, &full[i]) {
                return false;
            }
        } else if !lib_eq(g, &full[i]) {
            return false;
        }
    }
    true
}

/// Short printable form for messages.
pub fn brief(vs: &[Amf0Value]) -> String {
    let s = format!("{:?}", vs.iter().map(from_lib).collect::<Vec<_>>());
    crate::core::truncate(&s, 600)
}

pub fn depth(v: &V) -> usize {
    match v {
        V::Obj(p) | V::Ecma(_, p) => 1 + p.iter().map(|x| depth(&x.1)).max().unwrap_or(0),
        V::Arr(a) => 1 + a.iter().map(depth).max().unwrap_or(0),
        V::ArrRep(v, _) => 1 + depth(v),
        V::ObjRep(_, _) => 1,
        V::Deep { depth: d, leaf, .. } => *d as usize + depth(leaf),
        _ => 0,
    }
}

pub fn has_container(v: &V) -> bool {
    matches!(v, V::Obj(_) | V::Ecma(_, _) | V::Arr(_) | V::ArrRep(_, _) | V::ObjRep(_, _)) || matches!(v, V::Deep { depth, .. } if *depth > 0)
}

/// Visits every node of the tree.
pub fn walk<'a>(v: &'a V, f: &mut dyn FnMut(&'a V)) {
    f(v);
    match v {
        V::Obj(p) | V::Ecma(_, p) => {
            for (_, x) in p {
                walk(x, f);
            }
        }
        V::Arr(a) => {
            for x in a {
                walk(x, f);
            }
        }
        V::ArrRep(x, _) => walk(x, f),
        V::Deep { leaf, .. } => walk(leaf, f),
        _ => {}
    }
}

/// Expands the compact forms (ArrRep / ObjRep / repeated strings) into plain trees, the form the
/// strict decoder produces.
pub fn expand(v: &V) -> V {
    match v {
        V::Str(s) => V::Str(S::lit(s.build())),
        V::Obj(p) => V::Obj(p.iter().map(|(k, v)| (S::lit(k.build()), expand(v))).collect()),
        V::Ecma(c, p) => V::Ecma(*c, p.iter().map(|(k, v)| (S::lit(k.build()), expand(v))).collect()),
        V::Arr(a) => V::Arr(a.iter().map(expand).collect()),
        V::Deep { .. } => expand(&unfold(v)),
        V::ArrRep(x, n) => V::Arr(vec![expand(x); *n as usize]),
        V::ObjRep(prefix, n) => V::Obj((0..*n).map(|i| (S::lit(format!("{}{}", prefix.build(), i)), V::Num((i as f64).to_bits()))).collect()),
        other => other.clone(),
    }
}


/// Calls into the library that are REFUSED after part of the work was done, made before the
/// judged call of a case on the same thread: an encoder / decoder that keeps state between calls
/// (a reused scratch buffer, a depth counter that is not restored on the error path) shows in the
/// judged call.  0 = nothing.  Results are ignored; that these inputs are refused is judged elsewhere.
pub fn disturb(kind: u8) {
    use rml_amf0::Amf0Value as A;
    let long = "a".repeat(70_000);
    match kind % 6 {
        0 => {}
        1 => {
            let _ = rml_amf0::serialize(&vec![A::Utf8String("onMetaData".to_string()), A::Utf8String(long)]);
        }
        2 => {
            let mut m = HashMap::new();
            m.insert("k".to_string(), A::StrictArray(vec![A::Number(1.0), A::Utf8String(long)]));
            let _ = rml_amf0::serialize(&vec![A::Null, A::Object(m)]);
        }
        3 => {
            let deep = to_lib(&V::Deep { depth: 200, seed: 7, wire: false, leaf: Box::new(V::Null) });
            let _ = rml_amf0::serialize(&vec![A::Boolean(true), deep]);
        }
        4 => {
            // a value, then an object cut inside its second property
            let bytes = [0x05u8, 0x03, 0, 1, b'a', 0x05, 0, 2, b'b', b'c', 0x02, 0, 9, b'x'];
            let _ = rml_amf0::deserialize(&mut std::io::Cursor::new(&bytes[..]));
        }
        _ => {
            // nested arrays ending in an unknown marker
            let bytes = [0x0Au8, 0, 0, 0, 2, 0x0A, 0, 0, 0, 1, 0x03, 0, 1, b'k', 0x0A, 0, 0, 0, 1, 0x77];
            let _ = rml_amf0::deserialize(&mut std::io::Cursor::new(&bytes[..]));
        }
    }
}
