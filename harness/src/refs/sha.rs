//! RefHmac — own SHA-256 (FIPS 180-4) and HMAC-SHA256 (RFC 2104), plus the Flash-Player-9
//! handshake digest rules from the clean-room description the library cites
//! (https://www.cs.cmu.edu/~dst/Adobe/Gallery/RTMPE.txt) and rtmpdump's handshake.h.
//! Independent of the `sha2` / `hmac` crates the library uses.

const K: [u32; 64] = [
    0x428a2f98, 0x71374491, 0xb5c0fbcf, 0xe9b5dba5, 0x3956c25b, 0x59f111f1, 0x923f82a4, 0xab1c5ed5,
    0xd807aa98, 0x12835b01, 0x243185be, 0x550c7dc3, 0x72be5d74, 0x80deb1fe, 0x9bdc06a7, 0xc19bf174,
    0xe49b69c1, 0xefbe4786, 0x0fc19dc6, 0x240ca1cc, 0x2de92c6f, 0x4a7484aa, 0x5cb0a9dc, 0x76f988da,
    0x983e5152, 0xa831c66d, 0xb00327c8, 0xbf597fc7, 0xc6e00bf3, 0xd5a79147, 0x06ca6351, 0x14292967,
    0x27b70a85, 0x2e1b2138, 0x4d2c6dfc, 0x53380d13, 0x650a7354, 0x766a0abb, 0x81c2c92e, 0x92722c85,
    0xa2bfe8a1, 0xa81a664b, 0xc24b8b70, 0xc76c51a3, 0xd192e819, 0xd6990624, 0xf40e3585, 0x106aa070,
    0x19a4c116, 0x1e376c08, 0x2748774c, 0x34b0bcb5, 0x391c0cb3, 0x4ed8aa4a, 0x5b9cca4f, 0x682e6ff3,
    0x748f82ee, 0x78a5636f, 0x84c87814, 0x8cc70208, 0x90befffa, 0xa4506ceb, 0xbef9a3f7, 0xc67178f2,
];

pub fn sha256(data: &[u8]) -> [u8; 32] {
    let mut h: [u32; 8] = [
        0x6a09e667, 0xbb67ae85, 0x3c6ef372, 0xa54ff53a, 0x510e527f, 0x9b05688c, 0x1f83d9ab, 0x5be0cd19,
    ];
    let mut msg = data.to_vec();
    let bitlen = (data.len() as u64).wrapping_mul(8);
    msg.push(0x80);
    while msg.len() % 64 != 56 {
        msg.push(0);
    }
    msg.extend_from_slice(&bitlen.to_be_bytes());
    for block in msg.chunks(64) {
        let mut w = [0u32; 64];
        for i in 0..16 {
            w[i] = u32::from_be_bytes([block[4 * i], block[4 * i + 1], block[4 * i + 2], block[4 * i + 3]]);
        }
        for i in 16..64 {
            let s0 = w[i - 15].rotate_right(7) ^ w[i - 15].rotate_right(18) ^ (w[i - 15] >> 3);
            let s1 = w[i - 2].rotate_right(17) ^ w[i - 2].rotate_right(19) ^ (w[i - 2] >> 10);
            w[i] = w[i - 16].wrapping_add(s0).wrapping_add(w[i - 7]).wrapping_add(s1);
        }
        let (mut a, mut b, mut c, mut d, mut e, mut f, mut g, mut hh) = (h[0], h[1], h[2], h[3], h[4], h[5], h[6], h[7]);
        for i in 0..64 {
            let s1 = e.rotate_right(6) ^ e.rotate_right(11) ^ e.rotate_right(25);
            let ch = (e & f) ^ (!e & g);
            let t1 = hh.wrapping_add(s1).wrapping_add(ch).wrapping_add(K[i]).wrapping_add(w[i]);
            let s0 = a.rotate_right(2) ^ a.rotate_right(13) ^ a.rotate_right(22);
            let maj = (a & b) ^ (a & c) ^ (b & c);
            let t2 = s0.wrapping_add(maj);
            hh = g;
            g = f;
            f = e;
            e = d.wrapping_add(t1);
            d = c;
            c = b;
            b = a;
            a = t1.wrapping_add(t2);
        }
        h[0] = h[0].wrapping_add(a);
        h[1] = h[1].wrapping_add(b);
        h[2] = h[2].wrapping_add(c);
        h[3] = h[3].wrapping_add(d);
        h[4] = h[4].wrapping_add(e);
        h[5] = h[5].wrapping_add(f);
        h[6] = h[6].wrapping_add(g);
        h[7] = h[7].wrapping_add(hh);
    }
    let mut out = [0u8; 32];
    for i in 0..8 {
        out[4 * i..4 * i + 4].copy_from_slice(&h[i].to_be_bytes());
    }
    out
}

pub fn hmac_sha256(key: &[u8], msg: &[u8]) -> [u8; 32] {
    let mut k = [0u8; 64];
    if key.len() > 64 {
        k[..32].copy_from_slice(&sha256(key));
    } else {
        k[..key.len()].copy_from_slice(key);
    }
    let mut inner = Vec::with_capacity(64 + msg.len());
    inner.extend(k.iter().map(|b| b ^ 0x36));
    inner.extend_from_slice(msg);
    let ih = sha256(&inner);
    let mut outer = Vec::with_capacity(96);
    outer.extend(k.iter().map(|b| b ^ 0x5c));
    outer.extend_from_slice(&ih);
    sha256(&outer)
}

fn hex(s: &str) -> Vec<u8> {
    (0..s.len() / 2).map(|i| u8::from_str_radix(&s[2 * i..2 * i + 2], 16).unwrap()).collect()
}

/// Known-answer self test (FIPS 180-4 "abc", the empty string, RFC 4231 test cases 1, 2, 3, 6).
pub fn self_test() -> Result<(), String> {
    let checks: Vec<(Vec<u8>, Vec<u8>, &str)> = vec![
        (sha256(b"abc").to_vec(), hex("ba7816bf8f01cfea414140de5dae2223b00361a396177a9cb410ff61f20015ad"), "sha256(abc)"),
        (sha256(b"").to_vec(), hex("e3b0c44298fc1c149afbf4c8996fb92427ae41e4649b934ca495991b7852b855"), "sha256(empty)"),
        (
            sha256(b"abcdbcdecdefdefgefghfghighijhijkijkljklmklmnlmnomnopnopq").to_vec(),
            hex("248d6a61d20638b8e5c026930c3e6039a33ce45964ff2167f6ecedd419db06c1"),
            "sha256(two blocks)",
        ),
        (hmac_sha256(&[0x0b; 20], b"Hi There").to_vec(), hex("b0344c61d8db38535ca8afceaf0bf12b881dc200c9833da726e9376c2e32cff7"), "rfc4231 case 1"),
        (
            hmac_sha256(b"Jefe", b"what do ya want for nothing?").to_vec(),
            hex("5bdcc146bf60754e6a042426089575c75a003f089d2739839dec58b964ec3843"),
            "rfc4231 case 2",
        ),
        (hmac_sha256(&[0xaa; 20], &[0xdd; 50]).to_vec(), hex("773ea91e36800e46854db8ebd09181a72959098b3ef8c122d9635514ced565fe"), "rfc4231 case 3"),
        (
            hmac_sha256(&[0xaa; 131], b"Test Using Larger Than Block-Size Key - Hash Key First").to_vec(),
            hex("60e431591ee0b67f0d8a26aacbf5b77f8e0bc6213728c5140546040f0ee37f54"),
            "rfc4231 case 6",
        ),
    ];
    for (got, want, name) in checks {
        if got != want {
            return Err(format!("RefHmac self-test failed: {}", name));
        }
    }
    Ok(())
}

// ------------------------------------------------------------------------------------------------
// Flash Player 9 handshake rules

pub const PACKET: usize = 1536;
pub const FP_KEY_TEXT: &[u8] = b"Genuine Adobe Flash Player 001";
pub const FMS_KEY_TEXT: &[u8] = b"Genuine Adobe Flash Media Server 001";
pub const KEY_SUFFIX: [u8; 32] = [
    0xF0, 0xEE, 0xC2, 0x4A, 0x80, 0x68, 0xBE, 0xE8, 0x2E, 0x00, 0xD0, 0xD1, 0x02, 0x9E, 0x7E, 0x57, 0x6E, 0xEC, 0x5D, 0x2D, 0x29, 0x80, 0x6F,
    0xAB, 0x93, 0xB8, 0xE6, 0x36, 0xCF, 0xEB, 0x31, 0xAE,
];

#[derive(Clone, Copy, Debug, PartialEq, Eq, serde::Serialize, serde::Deserialize)]
pub enum Role {
    Client,
    Server,
}

impl Role {
    /// key for the digest inside this role's packet 1
    pub fn digest_key(self) -> &'static [u8] {
        match self {
            Role::Client => FP_KEY_TEXT,
            Role::Server => FMS_KEY_TEXT,
        }
    }
    /// full key (text + 32-byte suffix) used by this role to sign its packet 2
    pub fn full_key(self) -> Vec<u8> {
        let mut k = self.digest_key().to_vec();
        k.extend_from_slice(&KEY_SUFFIX);
        k
    }
    pub fn other(self) -> Role {
        match self {
            Role::Client => Role::Server,
            Role::Server => Role::Client,
        }
    }
}

/// The two digest position schemes: pointer bytes at 8..12 (digest in 12..740+32) or at 772..776
/// (digest in 776..1504+32).
#[derive(Clone, Copy, Debug, PartialEq, Eq, serde::Serialize, serde::Deserialize)]
pub enum Scheme {
    At8,
    At772,
}

impl Scheme {
    pub fn pointer(self) -> usize {
        match self {
            Scheme::At8 => 8,
            Scheme::At772 => 772,
        }
    }
    pub fn digest_pos(self, p1: &[u8]) -> usize {
        let p = self.pointer();
        let sum = p1[p] as usize + p1[p + 1] as usize + p1[p + 2] as usize + p1[p + 3] as usize;
        sum % 728 + p + 4
    }
}

pub fn digest_over(p1: &[u8], pos: usize, key: &[u8]) -> [u8; 32] {
    let mut m = Vec::with_capacity(PACKET - 32);
    m.extend_from_slice(&p1[..pos]);
    m.extend_from_slice(&p1[pos + 32..]);
    hmac_sha256(key, &m)
}

/// Which scheme (if any) carries a valid digest for `role` in this packet 1.
pub fn find_digest(p1: &[u8], role: Role) -> Option<(Scheme, usize)> {
    for s in [Scheme::At8, Scheme::At772] {
        let pos = s.digest_pos(p1);
        if digest_over(p1, pos, role.digest_key())[..] == p1[pos..pos + 32] {
            return Some((s, pos));
        }
    }
    None
}

/// Writes four pointer bytes whose sum is congruent to `offset` modulo 728, then the digest.
/// `spread` varies how the sum is distributed over the four bytes; `high` selects the larger
/// representative (offset + 728) when it fits in 4 * 255.
pub fn place_digest(p1: &mut [u8], role: Role, scheme: Scheme, offset: usize, high: bool, spread: u8) -> usize {
    set_pointer(&mut p1[scheme.pointer()..scheme.pointer() + 4], offset, high, spread);
    let pos = scheme.digest_pos(p1);
    let d = digest_over(p1, pos, role.digest_key());
    p1[pos..pos + 32].copy_from_slice(&d);
    pos
}

pub fn set_pointer(b: &mut [u8], offset: usize, high: bool, spread: u8) {
    let mut sum = offset % 728;
    if high && sum + 728 <= 1020 {
        sum += 728;
    }
    let mut vals = [0usize; 4];
    let mut rest = sum;
    // start at a rotating position so different bytes carry the weight
    for k in 0..4 {
        let i = (k + spread as usize) % 4;
        let take = rest.min(255);
        vals[i] = take;
        rest -= take;
    }
    // move some weight between two bytes without changing the sum
    let (i, j) = ((spread as usize / 4) % 4, (spread as usize / 16) % 4);
    if i != j {
        let mv = vals[i].min(255 - vals[j]).min(spread as usize);
        vals[i] -= mv;
        vals[j] += mv;
    }
    for k in 0..4 {
        b[k] = vals[k] as u8;
    }
}

/// The signature a role must put at the end of its packet 2 in answer to a peer digest.
pub fn p2_signature(own: Role, peer_digest: &[u8], p2_first_1504: &[u8]) -> [u8; 32] {
    let tmp = hmac_sha256(&own.full_key(), peer_digest);
    hmac_sha256(&tmp, p2_first_1504)
}

/// Deterministic filler.
pub fn prng_fill(seed: u64, buf: &mut [u8]) {
    let mut x = seed ^ 0x9E3779B97F4A7C15;
    for chunk in buf.chunks_mut(8) {
        x = x.wrapping_add(0x9E3779B97F4A7C15);
        let mut z = x;
        z = (z ^ (z >> 30)).wrapping_mul(0xBF58476D1CE4E5B9);
        z = (z ^ (z >> 27)).wrapping_mul(0x94D049BB133111EB);
        z ^= z >> 31;
        let b = z.to_le_bytes();
        for (i, o) in chunk.iter_mut().enumerate() {
            *o = b[i];
        }
    }
}
