//! RefMsg — RTMP message bodies written from the RTMP 1.0 specification (sections 5.4, 6.2, 7.1)
//! and, for AMF0 command / data bodies, RefAmf0.  Never calls the library's codecs.

use crate::refs::amf0::{self as ra, S, V};
use bytes::Bytes;
use rml_rtmp::messages::{PeerBandwidthLimitType, RtmpMessage, UserControlEventType};
use rml_rtmp::time::RtmpTimestamp;
use serde::{Deserialize, Serialize};

#[derive(Clone, Debug, PartialEq, Serialize, Deserialize)]
pub enum RM {
    SetChunkSize(u32),
    Abort(u32),
    Ack(u32),
    WindowAck(u32),
    /// (size, limit code 0 hard / 1 soft / 2 dynamic)
    PeerBw(u32, u8),
    /// (event code, fields): 0,1,2,4,31,32 => [stream id]; 3 => [stream id, buffer ms]; 6,7 => [timestamp]
    UserControl(u16, Vec<u32>),
    Audio(Vec<u8>),
    Video(Vec<u8>),
    /// type 18 (or 15): AMF0 value list
    Data(Vec<V>),
    /// type 20 (or 17): name, transaction id bits, command object, further arguments
    Command(S, u64, V, Vec<V>),
    Unknown(u8, Vec<u8>),
}

pub const KNOWN_TYPES: &[u8] = &[1, 2, 3, 4, 5, 6, 8, 9, 15, 17, 18, 20];
pub const UC_EVENTS: &[u16] = &[0, 1, 2, 3, 4, 6, 7, 31, 32];

pub fn uc_field_count(event: u16) -> Option<usize> {
    match event {
        0 | 1 | 2 | 4 | 31 | 32 => Some(1),
        3 => Some(2),
        6 | 7 => Some(1),
        _ => None,
    }
}

impl RM {
    pub fn type_id(&self) -> u8 {
        match self {
            RM::SetChunkSize(_) => 1,
            RM::Abort(_) => 2,
            RM::Ack(_) => 3,
            RM::UserControl(_, _) => 4,
            RM::WindowAck(_) => 5,
            RM::PeerBw(_, _) => 6,
            RM::Audio(_) => 8,
            RM::Video(_) => 9,
            RM::Data(_) => 18,
            RM::Command(_, _, _, _) => 20,
            RM::Unknown(t, _) => *t,
        }
    }

    /// The body the specification prescribes (AMF0 bodies in the order of the reference tree).
    pub fn body(&self) -> Result<Vec<u8>, String> {
        Ok(match self {
            RM::SetChunkSize(v) | RM::Abort(v) | RM::Ack(v) | RM::WindowAck(v) => v.to_be_bytes().to_vec(),
            RM::PeerBw(v, l) => {
                let mut b = v.to_be_bytes().to_vec();
                b.push(*l);
                b
            }
            RM::UserControl(ev, fields) => {
                let mut b = ev.to_be_bytes().to_vec();
                for f in fields {
                    b.extend_from_slice(&f.to_be_bytes());
                }
                b
            }
            RM::Audio(d) | RM::Video(d) | RM::Unknown(_, d) => d.clone(),
            RM::Data(vs) => ra::enc(vs)?,
            RM::Command(name, tid, obj, args) => {
                let mut all = vec![V::Str(name.clone()), V::Num(*tid), obj.clone()];
                all.extend(args.iter().cloned());
                ra::enc(&all)?
            }
        })
    }

    /// The library message this reference message denotes.
    pub fn to_lib(&self) -> RtmpMessage {
        match self {
            RM::SetChunkSize(v) => RtmpMessage::SetChunkSize { size: *v },
            RM::Abort(v) => RtmpMessage::Abort { stream_id: *v },
            RM::Ack(v) => RtmpMessage::Acknowledgement { sequence_number: *v },
            RM::WindowAck(v) => RtmpMessage::WindowAcknowledgement { size: *v },
            RM::PeerBw(v, l) => RtmpMessage::SetPeerBandwidth {
                size: *v,
                limit_type: match l {
                    0 => PeerBandwidthLimitType::Hard,
                    1 => PeerBandwidthLimitType::Soft,
                    _ => PeerBandwidthLimitType::Dynamic,
                },
            },
            RM::UserControl(ev, f) => {
                let event_type = match ev {
                    0 => UserControlEventType::StreamBegin,
                    1 => UserControlEventType::StreamEof,
                    2 => UserControlEventType::StreamDry,
                    3 => UserControlEventType::SetBufferLength,
                    4 => UserControlEventType::StreamIsRecorded,
                    6 => UserControlEventType::PingRequest,
                    7 => UserControlEventType::PingResponse,
                    31 => UserControlEventType::BufferEmpty,
                    _ => UserControlEventType::BufferReady,
                };
                let (mut stream_id, mut buffer_length, mut timestamp) = (None, None, None);
                match ev {
                    3 => {
                        stream_id = f.get(0).copied();
                        buffer_length = f.get(1).copied();
                    }
                    6 | 7 => timestamp = f.get(0).map(|t| RtmpTimestamp::new(*t)),
                    _ => stream_id = f.get(0).copied(),
                }
                RtmpMessage::UserControl { event_type, stream_id, buffer_length, timestamp }
            }
            RM::Audio(d) => RtmpMessage::AudioData { data: Bytes::from(d.clone()) },
            RM::Video(d) => RtmpMessage::VideoData { data: Bytes::from(d.clone()) },
            RM::Data(vs) => RtmpMessage::Amf0Data { values: ra::to_lib_list(vs) },
            RM::Command(name, tid, obj, args) => RtmpMessage::Amf0Command {
                command_name: name.build(),
                transaction_id: f64::from_bits(*tid),
                command_object: ra::to_lib(obj),
                additional_arguments: ra::to_lib_list(args),
            },
            RM::Unknown(t, d) => RtmpMessage::Unknown { type_id: *t, data: Bytes::from(d.clone()) },
        }
    }

    /// Reference parse of a message body (what a conformant peer reads).  AMF3-typed data and
    /// command messages (15, 17) are NOT aliased here; the caller decides.
    pub fn parse(type_id: u8, body: &[u8]) -> Result<RM, String> {
        let u32_at = |i: usize| -> Result<u32, String> {
            if body.len() < i + 4 {
                return Err(format!("type {} body has {} bytes, needs {}", type_id, body.len(), i + 4));
            }
            Ok(u32::from_be_bytes([body[i], body[i + 1], body[i + 2], body[i + 3]]))
        };
        Ok(match type_id {
            1 => RM::SetChunkSize(u32_at(0)?),
            2 => RM::Abort(u32_at(0)?),
            3 => RM::Ack(u32_at(0)?),
            5 => RM::WindowAck(u32_at(0)?),
            6 => {
                let v = u32_at(0)?;
                if body.len() < 5 {
                    return Err("Set Peer Bandwidth body shorter than 5 bytes".to_string());
                }
                if body[4] > 2 {
                    return Err(format!("Set Peer Bandwidth limit type {} is not 0/1/2", body[4]));
                }
                RM::PeerBw(v, body[4])
            }
            4 => {
                if body.len() < 2 {
                    return Err("User Control body shorter than 2 bytes".to_string());
                }
                let ev = u16::from_be_bytes([body[0], body[1]]);
                let n = uc_field_count(ev).ok_or_else(|| format!("User Control event {} unknown", ev))?;
                let mut f = Vec::new();
                for k in 0..n {
                    f.push(u32_at(2 + 4 * k)?);
                }
                RM::UserControl(ev, f)
            }
            8 => RM::Audio(body.to_vec()),
            9 => RM::Video(body.to_vec()),
            18 => RM::Data(ra::dec_strict(body)?),
            20 => {
                let mut vs = ra::dec_strict(body)?;
                if vs.len() < 3 {
                    return Err(format!("command body has {} values, needs >= 3", vs.len()));
                }
                let args = vs.split_off(3);
                let obj = vs.pop().unwrap();
                let tid = match vs.pop().unwrap() {
                    V::Num(b) => b,
                    other => return Err(format!("transaction id is {:?}", other)),
                };
                let name = match vs.pop().unwrap() {
                    V::Str(s) => s,
                    other => return Err(format!("command name is {:?}", other)),
                };
                RM::Command(name, tid, obj, args)
            }
            t => RM::Unknown(t, body.to_vec()),
        })
    }
}

/// Equality of library messages with f64 compared by bit pattern and AMF0 objects as maps.
pub fn msg_eq(a: &RtmpMessage, b: &RtmpMessage) -> bool {
    match (a, b) {
        (
            RtmpMessage::Amf0Command { command_name: n1, transaction_id: t1, command_object: o1, additional_arguments: a1 },
            RtmpMessage::Amf0Command { command_name: n2, transaction_id: t2, command_object: o2, additional_arguments: a2 },
        ) => n1 == n2 && t1.to_bits() == t2.to_bits() && ra::lib_eq(o1, o2) && ra::lib_list_eq(a1, a2),
        (RtmpMessage::Amf0Data { values: v1 }, RtmpMessage::Amf0Data { values: v2 }) => ra::lib_list_eq(v1, v2),
        (RtmpMessage::Amf0Command { .. }, _) | (RtmpMessage::Amf0Data { .. }, _) => false,
        (_, RtmpMessage::Amf0Command { .. }) | (_, RtmpMessage::Amf0Data { .. }) => false,
        (x, y) => x == y,
    }
}

pub fn brief_msg(m: &RtmpMessage) -> String {
    crate::core::truncate(&format!("{:?}", m), 500)
}
