pub mod amf0;
pub mod chunk;
pub mod msg;
pub mod sha;
