//! RefChunkDec / RefChunkEnc — an independent implementation of the RTMP chunk stream
//! (RTMP 1.0 specification, section 5.3.1).  Written from the specification; never calls the
//! library.  All timestamp arithmetic is modulo 2^32.

use std::collections::HashMap;

#[derive(Clone, Debug, PartialEq, Eq)]
pub struct Msg {
    pub ts: u32,
    pub type_id: u8,
    pub msid: u32,
    pub payload: Vec<u8>,
}

impl Msg {
    pub fn brief(&self) -> String {
        let head: Vec<u8> = self.payload.iter().take(8).copied().collect();
        format!(
            "Msg{{ts={} type={} msid={} len={} head={:02x?}}}",
            self.ts,
            self.type_id,
            self.msid,
            self.payload.len(),
            head
        )
    }
}

pub fn brief_list(ms: &[Msg]) -> String {
    let v: Vec<String> = ms.iter().take(12).map(|m| m.brief()).collect();
    format!("[{}]{}", v.join(", "), if ms.len() > 12 { format!(" (+{} more)", ms.len() - 12) } else { String::new() })
}

/// A decoded message together with how it travelled.
#[derive(Clone, Debug)]
pub struct DecMsg {
    pub msg: Msg,
    pub csid: u32,
    /// header format of the first chunk
    pub first_fmt: u8,
    pub chunks: u32,
    /// byte offset (in the concatenation of everything fed) of the first byte of the first chunk
    pub start: u64,
    /// byte offset one past the last byte of the last chunk
    pub end: u64,
    /// extended timestamp field present on the first chunk
    pub ext_first: bool,
    /// number of continuation chunks that carried an extended timestamp field
    pub ext_cont: u32,
    /// size in bytes of the basic header of the first chunk (1, 2 or 3)
    pub basic_len: u8,
    /// a continuation chunk used a format-0 header (repeating the message's fields)
    pub fmt0_continuation: bool,
    /// chunks of another chunk stream arrived between the first and last chunk of this message
    pub interleaved: bool,
}

#[derive(Clone, Debug)]
struct Prev {
    ts: u32,
    /// the full 32-bit value a format-3 chunk starting a new message re-applies: the previous
    /// delta, or the timestamp itself when the previous header was format 0
    delta: u32,
    /// the governing 24-bit field was 0xFFFFFF (an extended field follows format-3 chunks too)
    ext: bool,
    /// the 32-bit value carried by the extended field of the governing header
    ext_value: u32,
    len: u32,
    type_id: u8,
    msid: u32,
}

#[derive(Clone, Debug)]
struct Partial {
    ts: u32,
    len: u32,
    type_id: u8,
    msid: u32,
    data: Vec<u8>,
    first_fmt: u8,
    chunks: u32,
    start: u64,
    ext_first: bool,
    ext_cont: u32,
    basic_len: u8,
    fmt0_continuation: bool,
    interleaved: bool,
}

pub struct RefChunkDec {
    pub strict: bool,
    pub chunk_size: usize,
    prev: HashMap<u32, Prev>,
    partial: HashMap<u32, Partial>,
    /// total bytes consumed so far
    pub offset: u64,
    /// when true a decoded Set Chunk Size (type 1) message is applied to the following chunks
    pub honour_set_chunk_size: bool,
    pending: Vec<u8>,
    pub chunks_seen: u64,
    /// when set, (chunk start, end of its headers, chunk end) of every chunk is recorded
    pub record_chunks: bool,
    pub chunk_map: Vec<(u64, u64, u64)>,
}

fn rd_u24(b: &[u8]) -> u32 {
    ((b[0] as u32) << 16) | ((b[1] as u32) << 8) | b[2] as u32
}

fn rd_u32be(b: &[u8]) -> u32 {
    u32::from_be_bytes([b[0], b[1], b[2], b[3]])
}

impl RefChunkDec {
    pub fn new(strict: bool) -> RefChunkDec {
        RefChunkDec {
            strict,
            chunk_size: 128,
            prev: HashMap::new(),
            partial: HashMap::new(),
            offset: 0,
            honour_set_chunk_size: true,
            pending: Vec::new(),
            chunks_seen: 0,
            record_chunks: false,
            chunk_map: Vec::new(),
        }
    }

    /// number of messages currently being reassembled
    pub fn incomplete(&self) -> usize {
        self.partial.len()
    }

    /// bytes fed but not yet consumed (a chunk that is not complete yet)
    pub fn pending_bytes(&self) -> usize {
        self.pending.len()
    }

    /// Feeds bytes; returns the messages completed by them.  Bytes that do not yet form a whole
    /// chunk are kept until more arrive.
    pub fn feed(&mut self, bytes: &[u8]) -> Result<Vec<DecMsg>, String> {
        let mut out = Vec::new();
        let owned;
        let buf: &[u8] = if self.pending.is_empty() {
            bytes
        } else {
            self.pending.extend_from_slice(bytes);
            owned = std::mem::take(&mut self.pending);
            &owned
        };
        let mut pos = 0usize;
        loop {
            match self.one_chunk(&buf[pos..])? {
                None => break,
                Some((used, msg)) => {
                    pos += used;
                    self.offset += used as u64;
                    if let Some(m) = msg {
                        out.push(m);
                    }
                }
            }
        }
        if pos < buf.len() {
            self.pending = buf[pos..].to_vec();
        }
        Ok(out)
    }

    /// Strict end-of-stream check: nothing may be left half-received.
    pub fn finish(&self) -> Result<(), String> {
        if !self.pending.is_empty() {
            return Err(format!("stream ends inside a chunk ({} stray bytes)", self.pending.len()));
        }
        if !self.partial.is_empty() {
            let ids: Vec<&u32> = self.partial.keys().collect();
            return Err(format!("stream ends inside a message on chunk stream(s) {:?}", ids));
        }
        Ok(())
    }

    /// Parses one chunk from the front of `b`.  Ok(None) = not enough bytes yet.
    fn one_chunk(&mut self, b: &[u8]) -> Result<Option<(usize, Option<DecMsg>)>, String> {
        if b.is_empty() {
            return Ok(None);
        }
        let at = self.offset;
        let fmt = b[0] >> 6;
        let low = (b[0] & 0x3F) as u32;
        let (csid, mut p) = match low {
            0 => {
                if b.len() < 2 {
                    return Ok(None);
                }
                (64 + b[1] as u32, 2usize)
            }
            1 => {
                if b.len() < 3 {
                    return Ok(None);
                }
                let id = 64 + b[1] as u32 + 256 * b[2] as u32;
                if self.strict && id < 320 {
                    return Err(format!("offset {}: chunk stream id {} written in the 3-byte form (not minimal)", at, id));
                }
                (id, 3usize)
            }
            x => (x, 1usize),
        };
        let basic_len = p as u8;
        let hdr_len = match fmt {
            0 => 11,
            1 => 7,
            2 => 3,
            _ => 0,
        };
        if b.len() < p + hdr_len {
            return Ok(None);
        }
        let h = &b[p..p + hdr_len];
        p += hdr_len;
        let prev = self.prev.get(&csid).cloned();
        if fmt != 0 && prev.is_none() {
            return Err(format!("offset {}: format {} chunk on chunk stream {} which has no preceding chunk", at, fmt, csid));
        }
        let field24 = if fmt <= 2 { Some(rd_u24(&h[0..3])) } else { None };
        let has_ext = match field24 {
            Some(f) => f == 0xFF_FFFF,
            None => prev.as_ref().map(|x| x.ext).unwrap_or(false),
        };
        let mut ext_value = 0u32;
        if has_ext {
            if b.len() < p + 4 {
                return Ok(None);
            }
            ext_value = rd_u32be(&b[p..p + 4]);
            p += 4;
            if self.strict && ext_value < 0xFF_FFFF {
                return Err(format!("offset {}: extended timestamp field {} is below 0xFFFFFF (the 24-bit field must be used)", at, ext_value));
            }
        }
        let continuing = self.partial.contains_key(&csid);
        // resolve the header fields of this chunk
        let (ts, len, type_id, msid, delta, gov_ext, gov_ext_value);
        if continuing {
            let part = self.partial.get(&csid).unwrap();
            match fmt {
                3 => {
                    if has_ext && self.strict {
                        let expect = prev.as_ref().map(|x| x.ext_value).unwrap_or(0);
                        if ext_value != expect {
                            return Err(format!("offset {}: continuation chunk repeats extended timestamp {} but the message's was {}", at, ext_value, expect));
                        }
                    }
                }
                0 => {
                    let f_ts = if has_ext { ext_value } else { field24.unwrap() };
                    let f_len = rd_u24(&h[3..6]);
                    let f_type = h[6];
                    let f_msid = u32::from_le_bytes([h[7], h[8], h[9], h[10]]);
                    if f_ts != part.ts || f_len != part.len || f_type != part.type_id || f_msid != part.msid {
                        return Err(format!(
                            "offset {}: format 0 header inside a message on chunk stream {} whose fields differ from the message being continued",
                            at, csid
                        ));
                    }
                }
                _ => {
                    return Err(format!("offset {}: format {} header inside a message on chunk stream {}", at, fmt, csid));
                }
            }
            let pv = prev.as_ref().unwrap();
            ts = part.ts;
            len = part.len;
            type_id = part.type_id;
            msid = part.msid;
            if fmt == 0 {
                // a format-0 header is the governing header from here on
                delta = part.ts;
                gov_ext = has_ext;
                gov_ext_value = ext_value;
            } else {
                delta = pv.delta;
                gov_ext = pv.ext;
                gov_ext_value = pv.ext_value;
            }
        } else {
            match fmt {
                0 => {
                    ts = if has_ext { ext_value } else { field24.unwrap() };
                    len = rd_u24(&h[3..6]);
                    type_id = h[6];
                    msid = u32::from_le_bytes([h[7], h[8], h[9], h[10]]);
                    delta = ts;
                    gov_ext = has_ext;
                    gov_ext_value = ext_value;
                }
                1 => {
                    let pv = prev.as_ref().unwrap();
                    delta = if has_ext { ext_value } else { field24.unwrap() };
                    ts = pv.ts.wrapping_add(delta);
                    len = rd_u24(&h[3..6]);
                    type_id = h[6];
                    msid = pv.msid;
                    gov_ext = has_ext;
                    gov_ext_value = ext_value;
                }
                2 => {
                    let pv = prev.as_ref().unwrap();
                    delta = if has_ext { ext_value } else { field24.unwrap() };
                    ts = pv.ts.wrapping_add(delta);
                    len = pv.len;
                    type_id = pv.type_id;
                    msid = pv.msid;
                    gov_ext = has_ext;
                    gov_ext_value = ext_value;
                }
                _ => {
                    let pv = prev.as_ref().unwrap();
                    if has_ext && self.strict && ext_value != pv.ext_value {
                        return Err(format!("offset {}: format 3 chunk starting a message carries extended timestamp {} but the governing header's was {}", at, ext_value, pv.ext_value));
                    }
                    delta = pv.delta;
                    ts = pv.ts.wrapping_add(delta);
                    len = pv.len;
                    type_id = pv.type_id;
                    msid = pv.msid;
                    gov_ext = pv.ext;
                    gov_ext_value = pv.ext_value;
                }
            }
        }
        let received = if continuing { self.partial.get(&csid).unwrap().data.len() } else { 0 };
        let want = std::cmp::min(self.chunk_size, len as usize - received);
        if b.len() < p + want {
            return Ok(None);
        }
        let payload = &b[p..p + want];
        if self.record_chunks {
            self.chunk_map.push((at, at + p as u64, at + (p + want) as u64));
        }
        p += want;
        self.chunks_seen += 1;
        // every other chunk stream with an incomplete message has now been interleaved with
        for (id, part) in self.partial.iter_mut() {
            if *id != csid {
                part.interleaved = true;
            }
        }
        let others_incomplete = self.partial.keys().any(|id| *id != csid);
        self.prev.insert(
            csid,
            Prev {
                ts,
                delta,
                ext: gov_ext,
                ext_value: gov_ext_value,
                len,
                type_id,
                msid,
            },
        );
        let part = self.partial.entry(csid).or_insert_with(|| Partial {
            ts,
            len,
            type_id,
            msid,
            data: Vec::with_capacity(len as usize),
            first_fmt: fmt,
            chunks: 0,
            start: at,
            ext_first: has_ext,
            ext_cont: 0,
            basic_len,
            fmt0_continuation: false,
            interleaved: false,
        });
        if part.chunks > 0 {
            if has_ext {
                part.ext_cont += 1;
            }
            if fmt == 0 {
                part.fmt0_continuation = true;
            }
        }
        if others_incomplete {
            part.interleaved = true;
        }
        part.chunks += 1;
        part.data.extend_from_slice(payload);
        let mut done = None;
        if part.data.len() == part.len as usize {
            let part = self.partial.remove(&csid).unwrap();
            let m = DecMsg {
                msg: Msg {
                    ts: part.ts,
                    type_id: part.type_id,
                    msid: part.msid,
                    payload: part.data,
                },
                csid,
                first_fmt: part.first_fmt,
                chunks: part.chunks,
                start: part.start,
                end: at + p as u64,
                ext_first: part.ext_first,
                ext_cont: part.ext_cont,
                basic_len: part.basic_len,
                fmt0_continuation: part.fmt0_continuation,
                interleaved: part.interleaved,
            };
            if m.msg.type_id == 1 && self.honour_set_chunk_size {
                if m.msg.payload.len() >= 4 {
                    let v = rd_u32be(&m.msg.payload[0..4]);
                    if self.strict {
                        if v & 0x8000_0000 != 0 || v == 0 {
                            return Err(format!("offset {}: Set Chunk Size announces illegal size {}", at, v));
                        }
                        if m.msg.payload.len() != 4 {
                            return Err(format!("offset {}: Set Chunk Size body has {} bytes", at, m.msg.payload.len()));
                        }
                        if csid != 2 || m.msg.msid != 0 {
                            return Err(format!("offset {}: Set Chunk Size travels on chunk stream {} / message stream {} (must be 2 / 0)", at, csid, m.msg.msid));
                        }
                    }
                    let v = (v & 0x7FFF_FFFF) as usize;
                    if v >= 1 {
                        self.chunk_size = v;
                    }
                } else if self.strict {
                    return Err(format!("offset {}: Set Chunk Size body has {} bytes", at, m.msg.payload.len()));
                }
            }
            done = Some(m);
        }
        Ok(Some((p, done)))
    }
}

/// Decodes a complete stream in one go.
pub fn decode_all(strict: bool, bytes: &[u8]) -> Result<Vec<DecMsg>, String> {
    let mut d = RefChunkDec::new(strict);
    let out = d.feed(bytes)?;
    d.finish()?;
    Ok(out)
}

// ------------------------------------------------------------------------------------------------
// Foreign sender

#[derive(Clone, Debug)]
struct PrevOut {
    ts: u32,
    delta: u32,
    len: u32,
    type_id: u8,
    msid: u32,
}

#[derive(Clone, Debug)]
pub struct EncOpts {
    pub csid: u32,
    /// wanted header format 0..3; lowered to the most compressed format that is legal
    pub want_fmt: u8,
    /// write csids 64..319 in the (legal, non-minimal) 3-byte form
    pub three_byte: bool,
    /// use a format-0 header that repeats the message's fields on continuation chunks
    pub fmt0_continuation: bool,
}

pub struct RefChunkEnc {
    pub chunk_size: usize,
    prev: HashMap<u32, PrevOut>,
}

pub struct EncodedMsg {
    /// one entry per chunk, in order
    pub chunks: Vec<Vec<u8>>,
    /// the header format actually used for the first chunk
    pub fmt: u8,
}

fn put_u24(out: &mut Vec<u8>, v: u32) {
    out.push((v >> 16) as u8);
    out.push((v >> 8) as u8);
    out.push(v as u8);
}

impl RefChunkEnc {
    pub fn new() -> RefChunkEnc {
        RefChunkEnc {
            chunk_size: 128,
            prev: HashMap::new(),
        }
    }

    fn basic(out: &mut Vec<u8>, fmt: u8, csid: u32, three_byte: bool) {
        assert!(csid >= 2 && csid <= 65599, "csid out of range");
        if csid <= 63 {
            out.push((fmt << 6) | csid as u8);
        } else if csid <= 319 && !three_byte {
            out.push(fmt << 6);
            out.push((csid - 64) as u8);
        } else {
            out.push((fmt << 6) | 1);
            out.push(((csid - 64) & 0xFF) as u8);
            out.push(((csid - 64) >> 8) as u8);
        }
    }

    /// The most compressed header format that is legal for this message on this chunk stream.
    pub fn max_legal_fmt(&self, csid: u32, m: &Msg) -> u8 {
        match self.prev.get(&csid) {
            None => 0,
            Some(p) => {
                if p.msid != m.msid {
                    0
                } else if p.len != m.payload.len() as u32 || p.type_id != m.type_id {
                    1
                } else if m.ts.wrapping_sub(p.ts) != p.delta {
                    2
                } else {
                    3
                }
            }
        }
    }

    pub fn encode(&mut self, m: &Msg, o: &EncOpts) -> EncodedMsg {
        assert!(m.payload.len() <= 0xFF_FFFF);
        let fmt = o.want_fmt.min(self.max_legal_fmt(o.csid, m));
        let len = m.payload.len() as u32;
        let (field, delta) = if fmt == 0 {
            (m.ts, m.ts)
        } else {
            let d = m.ts.wrapping_sub(self.prev[&o.csid].ts);
            (d, d)
        };
        let ext = field >= 0xFF_FFFF;
        let mut chunks = Vec::new();
        let mut first = Vec::new();
        Self::basic(&mut first, fmt, o.csid, o.three_byte);
        if fmt <= 2 {
            put_u24(&mut first, field.min(0xFF_FFFF));
        }
        if fmt <= 1 {
            put_u24(&mut first, len);
            first.push(m.type_id);
        }
        if fmt == 0 {
            first.extend_from_slice(&m.msid.to_le_bytes());
        }
        if ext {
            first.extend_from_slice(&field.to_be_bytes());
        }
        let n0 = std::cmp::min(self.chunk_size, m.payload.len());
        first.extend_from_slice(&m.payload[..n0]);
        chunks.push(first);
        let mut sent = n0;
        while sent < m.payload.len() {
            let mut c = Vec::new();
            if o.fmt0_continuation {
                Self::basic(&mut c, 0, o.csid, o.three_byte);
                put_u24(&mut c, m.ts.min(0xFF_FFFF));
                put_u24(&mut c, len);
                c.push(m.type_id);
                c.extend_from_slice(&m.msid.to_le_bytes());
                if m.ts >= 0xFF_FFFF {
                    c.extend_from_slice(&m.ts.to_be_bytes());
                }
            } else {
                Self::basic(&mut c, 3, o.csid, o.three_byte);
                if ext {
                    c.extend_from_slice(&field.to_be_bytes());
                }
            }
            let n = std::cmp::min(self.chunk_size, m.payload.len() - sent);
            c.extend_from_slice(&m.payload[sent..sent + n]);
            sent += n;
            chunks.push(c);
        }
        let multi = chunks.len() > 1;
        // after format-0 continuation chunks the governing header is a format-0 header again
        let stored_delta = if o.fmt0_continuation && multi { m.ts } else { delta };
        self.prev.insert(
            o.csid,
            PrevOut {
                ts: m.ts,
                delta: stored_delta,
                len,
                type_id: m.type_id,
                msid: m.msid,
            },
        );
        EncodedMsg { chunks, fmt }
    }

    /// Emits a Set Chunk Size message (chunk stream 2, message stream 0, format 0) and switches.
    pub fn set_chunk_size(&mut self, size: u32, ts: u32) -> Vec<u8> {
        let m = Msg {
            ts,
            type_id: 1,
            msid: 0,
            payload: size.to_be_bytes().to_vec(),
        };
        let e = self.encode(
            &m,
            &EncOpts {
                csid: 2,
                want_fmt: 0,
                three_byte: false,
                fmt0_continuation: false,
            },
        );
        self.chunk_size = size as usize;
        e.chunks.concat()
    }
}
