//! Helpers that drive the library's chunk serializer / deserializer and translate between the
//! library's types and the reference model's.

use crate::core::Obs;
use crate::gen::{fill_bytes, Partition};
use crate::refs::chunk::{DecMsg, Msg, RefChunkDec};
use bytes::Bytes;
use rml_rtmp::chunk_io::{ChunkDeserializer, ChunkSerializer};
use rml_rtmp::messages::MessagePayload;
use rml_rtmp::time::RtmpTimestamp;
use serde::{Deserialize, Serialize};

#[derive(Clone, Debug, Serialize, Deserialize, PartialEq)]
pub struct MsgSpec {
    pub type_id: u8,
    pub msid: u32,
    /// added (mod 2^32) to the running timestamp of the sequence
    pub dts: u32,
    pub len: u32,
    pub fill: u32,
    pub force: bool,
    pub drop: bool,
}

#[derive(Clone, Debug, Serialize, Deserialize, PartialEq)]
pub enum Op {
    Msg(MsgSpec),
    /// outbound chunk-size change
    Chunk(u32),
}

#[derive(Clone, Debug, Serialize, Deserialize, PartialEq)]
pub struct Seq {
    pub ops: Vec<Op>,
}

pub fn payload_of(m: &MessagePayload) -> Msg {
    Msg {
        ts: m.timestamp.value,
        type_id: m.type_id,
        msid: m.message_stream_id,
        payload: m.data.to_vec(),
    }
}

pub fn to_payload(m: &Msg) -> MessagePayload {
    MessagePayload {
        timestamp: RtmpTimestamp::new(m.ts),
        type_id: m.type_id,
        message_stream_id: m.msid,
        data: Bytes::from(m.payload.clone()),
    }
}

pub struct SerOut {
    /// (bytes, can_be_dropped flag returned, can_be_dropped flag asked) per op
    pub packets: Vec<(Vec<u8>, bool)>,
    /// the message each packet carries (Set Chunk Size messages included)
    pub expected: Vec<Msg>,
}

/// Runs a sequence through one library ChunkSerializer.  Err = the property is already violated
/// (an accepted message yields an error, an empty packet, or a wrong droppable flag).
pub fn run_serializer(seq: &Seq) -> Result<SerOut, String> {
    let mut ser = ChunkSerializer::new();
    // timestamps run per type id (the library maps type ids to chunk streams), so equal deltas
    // on one chunk stream - the precondition of format 3 - are frequent
    let mut ts_by_type: std::collections::HashMap<u8, u32> = std::collections::HashMap::new();
    let mut ts = 0u32;
    let mut out = SerOut {
        packets: Vec::new(),
        expected: Vec::new(),
    };
    for (i, op) in seq.ops.iter().enumerate() {
        match op {
            Op::Msg(m) => {
                let e = ts_by_type.entry(m.type_id).or_insert(0);
                *e = e.wrapping_add(m.dts);
                ts = *e;
                let msg = Msg {
                    ts,
                    type_id: m.type_id,
                    msid: m.msid,
                    payload: fill_bytes(m.fill, m.len as usize),
                };
                let packet = ser
                    .serialize(&to_payload(&msg), m.force, m.drop)
                    .map_err(|e| format!("op {}: serialize refused an acceptable message ({} bytes): {:?}", i, m.len, e))?;
                if packet.bytes.is_empty() {
                    return Err(format!("op {}: serialize returned an empty packet for {}", i, msg.brief()));
                }
                if packet.can_be_dropped != m.drop {
                    return Err(format!("op {}: packet droppable flag {} but {} was asked", i, packet.can_be_dropped, m.drop));
                }
                out.packets.push((packet.bytes, m.drop));
                out.expected.push(msg);
            }
            Op::Chunk(n) => {
                let packet = ser
                    .set_max_chunk_size(*n, RtmpTimestamp::new(ts))
                    .map_err(|e| format!("op {}: set_max_chunk_size({}) refused: {:?}", i, n, e))?;
                if packet.bytes.is_empty() {
                    return Err(format!("op {}: set_max_chunk_size returned an empty packet", i));
                }
                if packet.can_be_dropped {
                    return Err(format!("op {}: the Set Chunk Size packet is marked droppable", i));
                }
                out.packets.push((packet.bytes, false));
                out.expected.push(Msg {
                    ts,
                    type_id: 1,
                    msid: 0,
                    payload: n.to_be_bytes().to_vec(),
                });
            }
        }
    }
    Ok(out)
}

/// Feeds `stream` to a fresh library ChunkDeserializer piece by piece, looping
/// get_next_message(&[]) until None and honouring every decoded Set Chunk Size before the next
/// call (the documented protocol).  Returns the messages and, if an error occurred, its text.
pub fn lib_decode(stream: &[u8], partition: &Partition) -> (Vec<Msg>, Option<String>) {
    let mut de = ChunkDeserializer::new();
    let mut out = Vec::new();
    for piece in partition.pieces(stream) {
        if let Some(e) = lib_feed(&mut de, piece, &mut out) {
            return (out, Some(e));
        }
    }
    (out, None)
}

pub fn lib_feed(de: &mut ChunkDeserializer, piece: &[u8], out: &mut Vec<Msg>) -> Option<String> {
    let mut input = piece;
    loop {
        match de.get_next_message(input) {
            Ok(Some(m)) => {
                let msg = payload_of(&m);
                if msg.type_id == 1 && msg.payload.len() >= 4 {
                    let v = u32::from_be_bytes([msg.payload[0], msg.payload[1], msg.payload[2], msg.payload[3]]);
                    // what a session does on receipt: parse, then set_max_chunk_size
                    if let Ok(rml_rtmp::messages::RtmpMessage::SetChunkSize { size }) = m.to_rtmp_message() {
                        if let Err(e) = de.set_max_chunk_size(size as usize) {
                            out.push(msg);
                            return Some(format!("set_max_chunk_size({}) refused: {:?}", v, e));
                        }
                    }
                }
                out.push(msg);
            }
            Ok(None) => return None,
            Err(e) => return Some(format!("{:?}", e)),
        }
        input = &[];
    }
}

/// "Each message is delivered when its last chunk arrives": feeds `stream` cut exactly at the end
/// offsets of the reference deliveries (ascending; only those up to `limit` are judged, the rest of
/// the stream is not fed) and requires that the call which supplies the last byte of the k-th
/// message has delivered exactly k messages, the k-th being `want[k-1]`.
pub fn lib_delivery_timing(stream: &[u8], ends: &[u64], want: &[Msg], limit: usize) -> Option<String> {
    let mut de = ChunkDeserializer::new();
    let mut out: Vec<Msg> = Vec::new();
    let mut pos = 0usize;
    let mut k = 0usize;
    while k < ends.len() {
        let end = ends[k] as usize;
        if end > limit || end > stream.len() {
            break;
        }
        // several messages may end at the same offset only if one of them is empty, which cannot
        // happen (every chunk has at least a basic header); still, count all ends <= this one
        let mut upto = k + 1;
        while upto < ends.len() && ends[upto] as usize == end {
            upto += 1;
        }
        if let Some(e) = lib_feed(&mut de, &stream[pos..end], &mut out) {
            return Some(format!("delivery timing: error while feeding bytes {}..{}: {}", pos, end, e));
        }
        if out.len() != upto {
            return Some(format!(
                "delivery timing: after the call that supplied the last byte (offset {}) of message #{} the deserializer has delivered {} message(s), expected {} (each message is due when its last chunk arrives)",
                end, upto, out.len(), upto
            ));
        }
        if out[upto - 1] != want[upto - 1] {
            return Some(format!("delivery timing: message #{} delivered differs from the reference", upto));
        }
        pos = end;
        k = upto;
    }
    None
}

pub fn first_difference(got: &[Msg], want: &[Msg]) -> Option<String> {
    for i in 0..got.len().max(want.len()) {
        match (got.get(i), want.get(i)) {
            (Some(g), Some(w)) if g == w => {}
            (Some(g), Some(w)) => {
                let at = g.payload.iter().zip(w.payload.iter()).position(|(a, b)| a != b);
                return Some(format!("message {}: got {} want {} (first payload difference at {:?})", i, g.brief(), w.brief(), at));
            }
            (Some(g), None) => return Some(format!("message {}: got an extra {} ({} expected in total)", i, g.brief(), want.len())),
            (None, Some(w)) => return Some(format!("message {}: missing {} (only {} delivered)", i, w.brief(), got.len())),
            (None, None) => {}
        }
    }
    None
}

/// Classes describing how a decoded stream exercised the codec (evidence of what the generator
/// actually produced).
pub fn classify_stream(dec: &[DecMsg], obs: &mut Obs) {
    let mut per_csid: std::collections::HashMap<u32, u32> = std::collections::HashMap::new();
    let mut prev_ts: std::collections::HashMap<u32, u32> = std::collections::HashMap::new();
    for d in dec {
        *per_csid.entry(d.csid).or_insert(0) += 1;
        match d.first_fmt {
            0 => obs.count("first-chunk-format-0", 1),
            1 => obs.count("first-chunk-format-1", 1),
            2 => obs.count("first-chunk-format-2", 1),
            _ => obs.count("first-chunk-format-3 (new message)", 1),
        }
        obs.class_if(d.first_fmt == 1, "format-1");
        obs.class_if(d.first_fmt == 2, "format-2");
        obs.class_if(d.first_fmt == 3, "format-3-new-message");
        obs.class_if(d.chunks > 1, "multi-chunk-message");
        obs.class_if(d.ext_first, "extended-timestamp-first-chunk");
        obs.class_if(d.ext_first && d.first_fmt != 0, "extended-delta");
        obs.class_if(d.ext_first && d.first_fmt == 3, "extended-timestamp-on-format-3-new-message");
        obs.class_if(d.ext_cont > 0, "extended-timestamp-continuation-chunk");
        obs.class_if(d.msg.payload.is_empty(), "zero-length-message");
        obs.class_if(d.msg.payload.is_empty() && d.first_fmt != 0, "zero-length-compressed");
        obs.class_if(d.fmt0_continuation, "format-0-continuation");
        obs.class_if(d.basic_len == 2, "csid-2-byte-form");
        obs.class_if(d.basic_len == 3, "csid-3-byte-form");
        obs.class_if(d.msg.type_id == 1, "chunk-size-change");
        if let Some(p) = prev_ts.get(&d.csid) {
            obs.class_if(d.msg.ts < *p, "timestamp-falls-or-wraps");
        }
        prev_ts.insert(d.csid, d.msg.ts);
        obs.count("messages", 1);
        obs.count("chunks", d.chunks as u64);
    }
    obs.class_if(per_csid.values().any(|n| *n >= 2), "two-or-more-messages-on-one-csid");
}

/// Classes for where the cuts of a partition fall relative to the chunk layout.
pub fn classify_cuts(chunk_map: &[(u64, u64, u64)], ends: &[usize], obs: &mut Obs) -> bool {
    let mut inside_header = false;
    let mut inside_payload = false;
    let total = chunk_map.last().map(|c| c.2).unwrap_or(0);
    let mut idx = 0usize;
    for e in ends {
        let e = *e as u64;
        if e == 0 || e >= total {
            continue;
        }
        while idx < chunk_map.len() && chunk_map[idx].2 <= e {
            idx += 1;
        }
        if idx >= chunk_map.len() {
            break;
        }
        let (s, h, _) = chunk_map[idx];
        if e > s && e < h {
            inside_header = true;
        } else if e > h || (e == h && h > s) {
            if e > h {
                inside_payload = true;
            }
        }
    }
    obs.class_if(inside_header, "cut-inside-chunk-header");
    obs.class_if(inside_payload, "cut-inside-payload");
    obs.class_if(ends.len() > 1, "more-than-one-call");
    inside_header
}

/// Reference decode of a whole stream with chunk map.
pub fn ref_decode(strict: bool, stream: &[u8]) -> Result<(Vec<DecMsg>, Vec<(u64, u64, u64)>), String> {
    let mut d = RefChunkDec::new(strict);
    d.record_chunks = true;
    let out = d.feed(stream)?;
    d.finish()?;
    Ok((out, d.chunk_map))
}

// ------------------------------------------------------------------------------------------------
// Foreign (reference-encoded) streams

use crate::refs::chunk::{EncOpts, RefChunkEnc};

#[derive(Clone, Debug, Serialize, Deserialize, PartialEq)]
pub struct FMsg {
    pub csid: u32,
    pub want_fmt: u8,
    pub three_byte: bool,
    pub fmt0_cont: bool,
    pub type_id: u8,
    pub msid: u32,
    pub dts: u32,
    pub len: u32,
    pub fill: u32,
}

#[derive(Clone, Debug, Serialize, Deserialize, PartialEq)]
pub enum FOp {
    Msg(FMsg),
    Chunk(u32),
}

pub struct ForeignOut {
    pub stream: Vec<u8>,
    pub expected: Vec<Msg>,
    /// header format actually used per message
    pub fmts: Vec<u8>,
    pub non_minimal_csid: bool,
}

pub fn encode_foreign(ops: &[FOp]) -> ForeignOut {
    let mut enc = RefChunkEnc::new();
    let mut ts_by_csid: std::collections::HashMap<u32, u32> = std::collections::HashMap::new();
    let mut out = ForeignOut {
        stream: Vec::new(),
        expected: Vec::new(),
        fmts: Vec::new(),
        non_minimal_csid: false,
    };
    encode_foreign_into(&mut enc, &mut ts_by_csid, ops, &mut out);
    out
}

/// Same, continuing an existing encoder (and its per-chunk-stream running timestamps).
pub fn encode_foreign_into(enc: &mut RefChunkEnc, ts_by_csid: &mut std::collections::HashMap<u32, u32>, ops: &[FOp], out: &mut ForeignOut) {
    // timestamps run per chunk stream (see run_serializer)
    let mut ts = ts_by_csid.values().copied().max().unwrap_or(0);
    for op in ops {
        match op {
            FOp::Msg(m) => {
                let e = ts_by_csid.entry(m.csid).or_insert(0);
                *e = e.wrapping_add(m.dts);
                ts = *e;
                let msg = Msg {
                    ts,
                    type_id: m.type_id,
                    msid: m.msid,
                    // a 4-byte Abort carries its `fill` as the chunk stream id it names
                    payload: if m.type_id == 2 && m.len == 4 { m.fill.to_be_bytes().to_vec() } else { fill_bytes(m.fill, m.len as usize) },
                };
                let e = enc.encode(
                    &msg,
                    &EncOpts {
                        csid: m.csid,
                        want_fmt: m.want_fmt,
                        three_byte: m.three_byte,
                        fmt0_continuation: m.fmt0_cont,
                    },
                );
                if m.three_byte && m.csid >= 64 && m.csid < 320 {
                    out.non_minimal_csid = true;
                }
                for c in &e.chunks {
                    out.stream.extend_from_slice(c);
                }
                out.fmts.push(e.fmt);
                out.expected.push(msg);
            }
            FOp::Chunk(n) => {
                let bytes = enc.set_chunk_size(*n, ts);
                out.stream.extend_from_slice(&bytes);
                out.fmts.push(0);
                out.expected.push(Msg {
                    ts,
                    type_id: 1,
                    msid: 0,
                    payload: n.to_be_bytes().to_vec(),
                });
            }
        }
    }
}
