//! vkit — property-based testing and fuzzing machinery for rust-media-libs (properties C01..C20).
#[macro_use]
pub mod core;
pub mod alloc;
pub mod isolate;

#[global_allocator]
static GLOBAL: alloc::Counting = alloc::Counting;
pub mod gen;
pub mod props;
pub mod refs;
pub mod drive;
pub mod sess;
pub mod targets;
