//! Runner, evidence, replay and known-findings plumbing shared by all property checks.
//!
//! A property (C01..C20) is decided by one or more *sub-checks*.  Each sub-check owns a case type
//! `C` (serde-serialisable, so a failing case becomes a replay file), a generator (a proptest
//! strategy or an explicit enumeration) and an evaluation function `fn(&C) -> Verdict` holding the
//! oracle.  The runner drives the generator deterministically from VERIF_SEED, shards the work
//! over threads, lets proptest shrink failures, and accumulates the evidence counters.

use proptest::strategy::{BoxedStrategy, Strategy, ValueTree};
use proptest::test_runner::{
    Config, RngAlgorithm, TestCaseError, TestError, TestRng, TestRunner,
};
use serde::de::DeserializeOwned;
use serde::Serialize;
use std::cell::{Cell, RefCell};
use std::collections::hash_map::DefaultHasher;
use std::collections::{BTreeMap, HashSet};
use std::fmt::Debug;
use std::hash::{Hash, Hasher};
use std::panic::{self, AssertUnwindSafe};
use std::path::PathBuf;
use std::sync::Arc;
use std::time::Instant;

#[derive(Clone, Copy, PartialEq, Eq, Debug)]
pub enum Tier {
    Quick,
    Thorough,
}

impl Tier {
    pub fn name(self) -> &'static str {
        match self {
            Tier::Quick => "quick",
            Tier::Thorough => "thorough",
        }
    }
    /// Picks the case count for the tier.
    pub fn pick(self, quick: u64, thorough: u64) -> u64 {
        match self {
            Tier::Quick => quick,
            Tier::Thorough => thorough,
        }
    }
}

#[derive(Clone, Debug)]
pub struct Ctx {
    pub tier: Tier,
    pub seed: u64,
    pub threads: usize,
    pub root: PathBuf,
    /// Multiplies every case count (VERIF_SCALE, default 1.0); used for ad-hoc deep runs.
    pub scale: f64,
}

impl Ctx {
    pub fn from_env(tier: Option<Tier>) -> Ctx {
        let tier = tier.unwrap_or_else(|| match std::env::var("VERIF_TIER").ok().as_deref() {
            Some("thorough") => Tier::Thorough,
            _ => Tier::Quick,
        });
        let seed = std::env::var("VERIF_SEED")
            .ok()
            .and_then(|s| s.trim().parse::<i128>().ok())
            .map(|v| v as u64)
            .unwrap_or(20260925);
        let threads = std::env::var("VERIF_THREADS")
            .ok()
            .and_then(|s| s.parse::<usize>().ok())
            .unwrap_or_else(|| {
                std::thread::available_parallelism()
                    .map(|n| n.get())
                    .unwrap_or(4)
                    .min(16)
            })
            .max(1);
        let scale = std::env::var("VERIF_SCALE")
            .ok()
            .and_then(|s| s.parse::<f64>().ok())
            .unwrap_or(1.0);
        Ctx {
            tier,
            seed,
            threads,
            root: verif_root(),
            scale,
        }
    }

    pub fn cases(&self, quick: u64, thorough: u64) -> u64 {
        let n = self.tier.pick(quick, thorough) as f64 * self.scale;
        (n as u64).max(1)
    }
}

pub fn verif_root() -> PathBuf {
    if let Ok(r) = std::env::var("VERIF_ROOT") {
        return PathBuf::from(r);
    }
    PathBuf::from("/verif")
}

// ------------------------------------------------------------------------------------------------
// Observations and verdicts

/// What one evaluated case contributed to the evidence.
#[derive(Default, Clone, Debug)]
pub struct Obs {
    /// true when the case satisfies the property's stated non-trivial rule
    pub nontrivial: bool,
    /// class labels the case falls into (each counted once per case)
    pub classes: Vec<&'static str>,
    /// additive counters (e.g. number of messages with header format 3)
    pub counts: Vec<(&'static str, u64)>,
}

impl Obs {
    pub fn new() -> Obs {
        Obs::default()
    }
    pub fn class(&mut self, name: &'static str) {
        if !self.classes.contains(&name) {
            self.classes.push(name);
        }
    }
    pub fn class_if(&mut self, cond: bool, name: &'static str) {
        if cond {
            self.class(name);
        }
    }
    pub fn count(&mut self, name: &'static str, n: u64) {
        if n == 0 {
            return;
        }
        for c in self.counts.iter_mut() {
            if c.0 == name {
                c.1 += n;
                return;
            }
        }
        self.counts.push((name, n));
    }
    pub fn nontrivial_if(&mut self, cond: bool) {
        if cond {
            self.nontrivial = true;
        }
    }
}

#[derive(Clone, Debug)]
pub enum Verdict {
    /// the property held on this case
    Pass(Obs),
    /// the property is violated on this case
    Fail(String),
    /// the case fails with the signature of a finding; it is a violation unless
    /// known_findings.txt lists that signature as open for the property
    Known { sig: &'static str, detail: String },
    /// the harness itself is inconsistent (reference model disagrees with itself, …): exit 2
    Harness(String),
}

impl Verdict {
    pub fn pass(obs: Obs) -> Verdict {
        Verdict::Pass(obs)
    }
    pub fn fail<S: Into<String>>(s: S) -> Verdict {
        Verdict::Fail(s.into())
    }
}

#[macro_export]
macro_rules! vfail {
    ($($arg:tt)*) => { return $crate::core::Verdict::Fail(format!($($arg)*)) };
}

#[macro_export]
macro_rules! vensure {
    ($cond:expr, $($arg:tt)*) => { if !($cond) { return $crate::core::Verdict::Fail(format!($($arg)*)); } };
}

// ------------------------------------------------------------------------------------------------
// Panic capture

thread_local! {
    static LAST_PANIC: RefCell<Option<String>> = RefCell::new(None);
    static QUIET_PANICS: Cell<bool> = Cell::new(false);
}

/// Installs a process-wide panic hook that records message and location in a thread local and
/// stays silent while a harness evaluation is running on that thread.
pub fn install_panic_hook() {
    let default = panic::take_hook();
    panic::set_hook(Box::new(move |info| {
        let loc = info
            .location()
            .map(|l| format!("{}:{}:{}", l.file(), l.line(), l.column()))
            .unwrap_or_else(|| "<unknown>".to_string());
        let msg = if let Some(s) = info.payload().downcast_ref::<&str>() {
            s.to_string()
        } else if let Some(s) = info.payload().downcast_ref::<String>() {
            s.clone()
        } else {
            "<non-string panic payload>".to_string()
        };
        let text = format!("panic at {}: {}", loc, msg);
        LAST_PANIC.with(|p| *p.borrow_mut() = Some(text));
        if !QUIET_PANICS.with(|q| q.get()) {
            default(info);
        }
    }));
}

/// Runs `f`, turning a panic into `Err(description with location)`.
pub fn catch<T>(f: impl FnOnce() -> T) -> Result<T, String> {
    let prev = QUIET_PANICS.with(|q| q.replace(true));
    LAST_PANIC.with(|p| *p.borrow_mut() = None);
    let r = panic::catch_unwind(AssertUnwindSafe(f));
    QUIET_PANICS.with(|q| q.set(prev));
    match r {
        Ok(v) => Ok(v),
        Err(_) => Err(LAST_PANIC
            .with(|p| p.borrow_mut().take())
            .unwrap_or_else(|| "panic (no details captured)".to_string())),
    }
}

// ------------------------------------------------------------------------------------------------
// Hang monitor for in-process evaluations
//
// A library call that never returns would make an in-process check hang instead of reporting.
// Every shard registers the case it is evaluating in a slot; a monitor thread reports a case whose
// evaluation has not returned within HANG_LIMIT as a violation (with a replay file) and ends the
// process with exit status 1.  The limit is several orders of magnitude above the cost of any
// case (microseconds to a few seconds for 16 MiB payloads).

pub const HANG_LIMIT_S: u64 = 300;

pub struct HangSlot {
    start_ms: std::sync::atomic::AtomicU64,
    ptr: std::sync::atomic::AtomicPtr<()>,
    ser: fn(*const ()) -> String,
    check: Mutex<String>,
    lock: Mutex<()>,
}

use std::sync::Mutex;

static SLOTS: Mutex<Vec<Arc<HangSlot>>> = Mutex::new(Vec::new());
static HANG_CTX: Mutex<Option<(PathBuf, String, u64, String)>> = Mutex::new(None);
static MONITOR_STARTED: std::sync::atomic::AtomicBool = std::sync::atomic::AtomicBool::new(false);

fn now_ms() -> u64 {
    use std::time::{SystemTime, UNIX_EPOCH};
    SystemTime::now().duration_since(UNIX_EPOCH).map(|d| d.as_millis() as u64).unwrap_or(1).max(1)
}

fn ser_case<C: Serialize>(p: *const ()) -> String {
    // SAFETY: the pointer was stored by `watched` from a live `&C`; the evaluating thread cannot
    // clear the slot (and afterwards drop the case) while the monitor holds the slot's lock
    let c: &C = unsafe { &*(p as *const C) };
    serde_json::to_string(c).unwrap_or_else(|_| "null".to_string())
}

pub fn new_hang_slot<C: Serialize>(check: &str) -> Arc<HangSlot> {
    let slot = Arc::new(HangSlot {
        start_ms: std::sync::atomic::AtomicU64::new(0),
        ptr: std::sync::atomic::AtomicPtr::new(std::ptr::null_mut()),
        ser: ser_case::<C>,
        check: Mutex::new(check.to_string()),
        lock: Mutex::new(()),
    });
    if let Ok(mut v) = SLOTS.lock() {
        v.push(slot.clone());
    }
    slot
}

/// Runs `f` (the evaluation of `case`) while the case is registered with the hang monitor.
pub fn watched<C, R>(slot: &HangSlot, case: &C, f: impl FnOnce() -> R) -> R {
    use std::sync::atomic::Ordering;
    slot.ptr.store(case as *const C as *mut (), Ordering::SeqCst);
    slot.start_ms.store(now_ms(), Ordering::SeqCst);
    let r = f();
    // clearing synchronises with a monitor that may be serialising the case right now
    let _g = slot.lock.lock();
    slot.start_ms.store(0, Ordering::SeqCst);
    r
}

pub fn start_hang_monitor(ctx: &Ctx, prop: &str) {
    use std::sync::atomic::Ordering;
    if let Ok(mut c) = HANG_CTX.lock() {
        *c = Some((ctx.root.clone(), prop.to_string(), ctx.seed, ctx.tier.name().to_string()));
    }
    if MONITOR_STARTED.swap(true, Ordering::SeqCst) {
        return;
    }
    let limit_ms = std::env::var("VERIF_HANG_LIMIT_S").ok().and_then(|s| s.parse::<u64>().ok()).unwrap_or(HANG_LIMIT_S) * 1000;
    std::thread::spawn(move || loop {
        std::thread::sleep(std::time::Duration::from_millis(1000));
        let slots: Vec<Arc<HangSlot>> = SLOTS.lock().map(|v| v.clone()).unwrap_or_default();
        let now = now_ms();
        for slot in slots {
            let st = slot.start_ms.load(Ordering::SeqCst);
            if st == 0 || now.saturating_sub(st) < limit_ms {
                continue;
            }
            let g = slot.lock.lock();
            if slot.start_ms.load(Ordering::SeqCst) != st {
                continue; // finished meanwhile
            }
            let json = (slot.ser)(slot.ptr.load(Ordering::SeqCst) as *const ());
            drop(g);
            let check = slot.check.lock().map(|c| c.clone()).unwrap_or_default();
            let (root, prop, seed, tier) = HANG_CTX.lock().ok().and_then(|c| c.clone()).unwrap_or((verif_root(), "?".to_string(), 0, "quick".to_string()));
            let case: serde_json::Value = serde_json::from_str(&json).unwrap_or(serde_json::Value::Null);
            let f = Failure {
                check,
                message: format!("the evaluation of this case has not returned after {} s: a library call hangs or loops (cases of this check take microseconds to seconds)", limit_ms / 1000),
                case,
                harness_error: false,
            };
            let fake = Ctx { tier: if tier == "thorough" { Tier::Thorough } else { Tier::Quick }, seed, threads: 1, root, scale: 1.0 };
            let path = write_replay(&fake, &prop, &f);
            println!("VIOLATION property={} replay={}", prop, path.display());
            println!("  check={} {}", f.check, f.message);
            use std::io::Write;
            let _ = std::io::stdout().flush();
            std::process::exit(1);
        }
    });
}

// ------------------------------------------------------------------------------------------------
// Statistics

#[derive(Default, Clone, Debug, Serialize)]
pub struct SubReport {
    pub name: String,
    pub generator: String,
    pub evaluations: u64,
    pub distinct_nontrivial: u64,
    pub wall_s: f64,
    pub exhaustive: bool,
}

#[derive(Default)]
pub struct Stats {
    pub evaluations: u64,
    pub nontrivial: HashSet<u64>,
    pub classes: BTreeMap<String, u64>,
    pub counts: BTreeMap<String, u64>,
    pub samples: Vec<serde_json::Value>,
    pub known: BTreeMap<String, (u64, String)>,
    pub subs: Vec<SubReport>,
}

impl Stats {
    pub fn merge(&mut self, other: Stats) {
        self.evaluations += other.evaluations;
        self.nontrivial.extend(other.nontrivial);
        for (k, v) in other.classes {
            *self.classes.entry(k).or_insert(0) += v;
        }
        for (k, v) in other.counts {
            *self.counts.entry(k).or_insert(0) += v;
        }
        for s in other.samples {
            self.samples.push(s);
        }
        for (k, (n, d)) in other.known {
            let e = self.known.entry(k).or_insert((0, d));
            e.0 += n;
        }
        self.subs.extend(other.subs);
    }

    fn record<C: Serialize>(&mut self, prefix: &str, case: &C, obs: &Obs, max_samples: usize) {
        self.evaluations += 1;
        for c in &obs.classes {
            *self.classes.entry(format!("{}/{}", prefix, c)).or_insert(0) += 1;
        }
        for (c, n) in &obs.counts {
            *self.counts.entry(format!("{}/{}", prefix, c)).or_insert(0) += n;
        }
        if obs.nontrivial {
            let js = serde_json::to_vec(case).unwrap_or_default();
            let mut h = DefaultHasher::new();
            prefix.hash(&mut h);
            js.hash(&mut h);
            let fp = h.finish();
            if self.nontrivial.insert(fp) && self.samples.len() < max_samples {
                self.samples.push(sample_value(prefix, &js));
            }
        }
    }
}

fn sample_value(prefix: &str, js: &[u8]) -> serde_json::Value {
    let case: serde_json::Value = if js.len() <= 3000 {
        serde_json::from_slice(js).unwrap_or(serde_json::Value::Null)
    } else {
        serde_json::Value::String(format!(
            "{}… ({} bytes of JSON, truncated)",
            String::from_utf8_lossy(&js[..3000]),
            js.len()
        ))
    };
    serde_json::json!({ "check": prefix, "case": case })
}

#[derive(Clone, Debug)]
pub struct Failure {
    pub check: String,
    pub message: String,
    pub case: serde_json::Value,
    pub harness_error: bool,
}

pub struct CheckResult {
    pub stats: Stats,
    pub failure: Option<Failure>,
}

// ------------------------------------------------------------------------------------------------
// Known findings

#[derive(Clone, Debug)]
pub struct KnownFinding {
    pub property: String,
    pub signature: String,
    pub text: String,
}

pub fn load_known_findings(root: &std::path::Path) -> Vec<KnownFinding> {
    let mut out = Vec::new();
    let text = match std::fs::read_to_string(root.join("known_findings.txt")) {
        Ok(t) => t,
        Err(_) => return out,
    };
    for line in text.lines() {
        let line = line.trim();
        if !line.starts_with("open:") {
            continue;
        }
        let rest = line["open:".len()..].trim();
        let mut property = String::new();
        let mut signature = String::new();
        let mut words = rest.splitn(3, ' ');
        for _ in 0..2 {
            if let Some(w) = words.next() {
                if let Some(v) = w.strip_prefix("property=") {
                    property = v.to_string();
                } else if let Some(v) = w.strip_prefix("signature=") {
                    signature = v.to_string();
                }
            }
        }
        let text = words.next().unwrap_or("").to_string();
        if !property.is_empty() && !signature.is_empty() {
            out.push(KnownFinding {
                property,
                signature,
                text,
            });
        }
    }
    out
}

// ------------------------------------------------------------------------------------------------
// Seeds

pub fn mix_seed(seed: u64, parts: &[&str], idx: u64) -> [u8; 32] {
    let mut h = DefaultHasher::new();
    seed.hash(&mut h);
    for p in parts {
        p.hash(&mut h);
    }
    idx.hash(&mut h);
    let mut x = h.finish();
    let mut out = [0u8; 32];
    for chunk in out.chunks_mut(8) {
        // splitmix64
        x = x.wrapping_add(0x9E3779B97F4A7C15);
        let mut z = x;
        z = (z ^ (z >> 30)).wrapping_mul(0xBF58476D1CE4E5B9);
        z = (z ^ (z >> 27)).wrapping_mul(0x94D049BB133111EB);
        z ^= z >> 31;
        chunk.copy_from_slice(&z.to_le_bytes());
    }
    out
}

pub fn new_runner(cases: u32, seed: [u8; 32]) -> TestRunner {
    let config = Config {
        cases,
        failure_persistence: None,
        max_shrink_iters: 4_000,
        // shrinking is bounded by wall clock as well (ms): a minimal case is a convenience, the
        // first failing case is already a valid replay
        max_shrink_time: 45_000,
        max_global_rejects: 1 << 20,
        max_local_rejects: 1 << 16,
        ..Config::default()
    };
    TestRunner::new_with_rng(config, TestRng::from_seed(RngAlgorithm::ChaCha, &seed))
}

// ------------------------------------------------------------------------------------------------
// The sub-check abstraction

pub trait DynCheck: Send + Sync {
    fn name(&self) -> &str;
    fn run(&self, ctx: &Ctx, prop: &str, known: &[KnownFinding]) -> CheckResult;
    /// Re-evaluates one saved case (from a replay file) without the generator.
    fn replay(&self, case: serde_json::Value) -> Result<Verdict, String>;
    /// Isolated checks: serve cases from stdin in a worker process.  Returns false when the
    /// check is not an isolated one.
    fn serve_worker(&self) -> bool {
        false
    }
}

pub trait CaseT: Clone + Debug + Serialize + DeserializeOwned + Send + Sync + 'static {}
impl<T: Clone + Debug + Serialize + DeserializeOwned + Send + Sync + 'static> CaseT for T {}

pub type EvalFn<C> = Arc<dyn Fn(&C) -> Verdict + Send + Sync>;

/// Evaluates one case with panic capture.  A panic inside the evaluation is a failure of the
/// case (the library is called from there), reported with its source location.
pub fn eval_guarded<C>(eval: &EvalFn<C>, case: &C) -> Verdict {
    match catch(|| eval(case)) {
        Ok(v) => v,
        // a panic whose location is in the harness's own sources (compiled with paths relative to
        // the crate: "src/…") is harness trouble - exit 2 - and never reported against the library;
        // locations in the library, in its dependencies or in std are failures of the case
        Err(p) if panic_in_harness(&p) => Verdict::Harness(format!("the harness itself panicked: {}", p)),
        Err(p) => Verdict::Fail(p),
    }
}

pub fn panic_in_harness(text: &str) -> bool {
    match text.strip_prefix("panic at ") {
        Some(rest) => rest.starts_with("src/") || rest.contains("/verif/harness/src/") || rest.contains("/alt-harness/src/"),
        None => false,
    }
}

fn is_listed(known: &[KnownFinding], prop: &str, sig: &str) -> bool {
    known
        .iter()
        .any(|k| k.property == prop && k.signature == sig)
}

/// Generated (random, shrinking) sub-check.
pub struct PropCheck<C: CaseT> {
    pub name: &'static str,
    pub strategy: Arc<dyn Fn(&Ctx) -> BoxedStrategy<C> + Send + Sync>,
    pub quick: u64,
    pub thorough: u64,
    pub eval: EvalFn<C>,
    pub max_threads: usize,
}

impl<C: CaseT> PropCheck<C> {
    pub fn new<S, F>(
        name: &'static str,
        strategy: S,
        quick: u64,
        thorough: u64,
        eval: F,
    ) -> Box<dyn DynCheck>
    where
        S: Fn(&Ctx) -> BoxedStrategy<C> + Send + Sync + 'static,
        F: Fn(&C) -> Verdict + Send + Sync + 'static,
    {
        Box::new(PropCheck {
            name,
            strategy: Arc::new(strategy),
            quick,
            thorough,
            eval: Arc::new(eval),
            max_threads: usize::MAX,
        })
    }

    pub fn with_threads<S, F>(
        name: &'static str,
        strategy: S,
        quick: u64,
        thorough: u64,
        max_threads: usize,
        eval: F,
    ) -> Box<dyn DynCheck>
    where
        S: Fn(&Ctx) -> BoxedStrategy<C> + Send + Sync + 'static,
        F: Fn(&C) -> Verdict + Send + Sync + 'static,
    {
        Box::new(PropCheck {
            name,
            strategy: Arc::new(strategy),
            quick,
            thorough,
            eval: Arc::new(eval),
            max_threads,
        })
    }
}

struct ShardOut {
    stats: Stats,
    failure: Option<Failure>,
}

fn run_shard<C: CaseT>(
    ctx: &Ctx,
    prop: &str,
    name: &str,
    strategy: BoxedStrategy<C>,
    eval: &EvalFn<C>,
    known: &[KnownFinding],
    cases: u64,
    shard: u64,
) -> ShardOut {
    let seed = mix_seed(ctx.seed, &[prop, name], shard);
    let mut runner = new_runner(cases.min(u32::MAX as u64) as u32, seed);
    let stats = RefCell::new(Stats::default());
    let failed = Cell::new(false);
    let first_msg: RefCell<Option<(String, bool)>> = RefCell::new(None);
    let slot = new_hang_slot::<C>(name);
    let result = runner.run(&strategy, |case: C| {
        let verdict = watched(&slot, &case, || eval_guarded(eval, &case));
        let shrinking = failed.get();
        match verdict {
            Verdict::Pass(obs) => {
                if !shrinking {
                    stats.borrow_mut().record(name, &case, &obs, 3);
                }
                Ok(())
            }
            Verdict::Known { sig, detail } => {
                if is_listed(known, prop, sig) {
                    if !shrinking {
                        let mut st = stats.borrow_mut();
                        st.evaluations += 1;
                        let e = st
                            .known
                            .entry(sig.to_string())
                            .or_insert((0, detail.clone()));
                        e.0 += 1;
                    }
                    Ok(())
                } else {
                    if !shrinking {
                        failed.set(true);
                        stats.borrow_mut().evaluations += 1;
                        *first_msg.borrow_mut() =
                            Some((format!("[{}] {}", sig, detail), false));
                    }
                    Err(TestCaseError::fail(format!("[{}] {}", sig, detail)))
                }
            }
            Verdict::Fail(msg) => {
                if !shrinking {
                    failed.set(true);
                    stats.borrow_mut().evaluations += 1;
                    *first_msg.borrow_mut() = Some((msg.clone(), false));
                }
                Err(TestCaseError::fail(msg))
            }
            Verdict::Harness(msg) => {
                if !shrinking {
                    failed.set(true);
                    *first_msg.borrow_mut() = Some((msg.clone(), true));
                    Err(TestCaseError::fail(format!("HARNESS: {}", msg)))
                } else {
                    // while shrinking a real failure, a harness inconsistency is not "the same
                    // failure": treat the candidate as passing
                    if first_msg.borrow().as_ref().map(|m| m.1).unwrap_or(false) {
                        Err(TestCaseError::fail(format!("HARNESS: {}", msg)))
                    } else {
                        Ok(())
                    }
                }
            }
        }
    });
    let failure = match result {
        Ok(()) => None,
        Err(TestError::Fail(reason, value)) => {
            let harness_error = first_msg.borrow().as_ref().map(|m| m.1).unwrap_or(false);
            // Re-evaluate the minimal case to get its own message
            let msg = match eval_guarded(eval, &value) {
                Verdict::Fail(m) => m,
                Verdict::Known { sig, detail } => format!("[{}] {}", sig, detail),
                Verdict::Harness(m) => format!("HARNESS: {}", m),
                Verdict::Pass(_) => format!("(minimal case passes on re-run; flaky?) {}", reason),
            };
            Some(Failure {
                check: name.to_string(),
                message: msg,
                case: serde_json::to_value(&value).unwrap_or(serde_json::Value::Null),
                harness_error,
            })
        }
        Err(TestError::Abort(reason)) => Some(Failure {
            check: name.to_string(),
            message: format!("generator aborted: {}", reason),
            case: serde_json::Value::Null,
            harness_error: true,
        }),
    };
    ShardOut {
        stats: stats.into_inner(),
        failure,
    }
}

impl<C: CaseT> DynCheck for PropCheck<C> {
    fn name(&self) -> &str {
        self.name
    }

    fn run(&self, ctx: &Ctx, prop: &str, known: &[KnownFinding]) -> CheckResult {
        let start = Instant::now();
        let total = ctx.cases(self.quick, self.thorough);
        let shards = (ctx.threads.min(self.max_threads) as u64)
            .min((total / 50).max(1))
            .max(1);
        let mut outs: Vec<Option<ShardOut>> = Vec::new();
        std::thread::scope(|scope| {
            let mut handles = Vec::new();
            for s in 0..shards {
                let n = total / shards + if s < total % shards { 1 } else { 0 };
                let mk = self.strategy.clone();
                let eval = self.eval.clone();
                let name = self.name;
                handles.push(
                    std::thread::Builder::new()
                        .stack_size(64 << 20)
                        .spawn_scoped(scope, move || {
                            let strategy = mk(ctx);
                            run_shard(ctx, prop, name, strategy, &eval, known, n, s)
                        })
                        .expect("spawn shard"),
                );
            }
            for h in handles {
                outs.push(h.join().ok());
            }
        });
        let mut stats = Stats::default();
        let mut failure = None;
        let mut sub_eval = 0;
        let mut sub_nt: HashSet<u64> = HashSet::new();
        for (i, o) in outs.into_iter().enumerate() {
            match o {
                Some(o) => {
                    sub_eval += o.stats.evaluations;
                    sub_nt.extend(o.stats.nontrivial.iter().copied());
                    let mut st = o.stats;
                    if stats.samples.len() >= 3 {
                        st.samples.clear();
                    }
                    stats.merge(st);
                    if failure.is_none() {
                        failure = o.failure;
                    }
                }
                None => {
                    if failure.is_none() {
                        failure = Some(Failure {
                            check: self.name.to_string(),
                            message: format!("shard {} thread died", i),
                            case: serde_json::Value::Null,
                            harness_error: true,
                        });
                    }
                }
            }
        }
        stats.samples.truncate(3);
        stats.subs.push(SubReport {
            name: self.name.to_string(),
            generator: format!("proptest, {} shard(s)", shards),
            evaluations: sub_eval,
            distinct_nontrivial: sub_nt.len() as u64,
            wall_s: start.elapsed().as_secs_f64(),
            exhaustive: false,
        });
        CheckResult { stats, failure }
    }

    fn replay(&self, case: serde_json::Value) -> Result<Verdict, String> {
        let c: C = serde_json::from_value(case).map_err(|e| format!("bad case json: {}", e))?;
        Ok(eval_guarded(&self.eval, &c))
    }
}

/// Enumerated sub-check: evaluates every case of an explicit finite list (bounded-exhaustive
/// part of a property).  No shrinking: each case is already a point of the enumerated space.
pub struct EnumCheck<C: CaseT> {
    pub name: &'static str,
    pub cases: Arc<dyn Fn(&Ctx) -> Vec<C> + Send + Sync>,
    pub eval: EvalFn<C>,
    pub exhaustive: bool,
}

impl<C: CaseT> EnumCheck<C> {
    pub fn new<G, F>(name: &'static str, exhaustive: bool, cases: G, eval: F) -> Box<dyn DynCheck>
    where
        G: Fn(&Ctx) -> Vec<C> + Send + Sync + 'static,
        F: Fn(&C) -> Verdict + Send + Sync + 'static,
    {
        Box::new(EnumCheck {
            name,
            cases: Arc::new(cases),
            eval: Arc::new(eval),
            exhaustive,
        })
    }
}

impl<C: CaseT> DynCheck for EnumCheck<C> {
    fn name(&self) -> &str {
        self.name
    }

    fn run(&self, ctx: &Ctx, prop: &str, known: &[KnownFinding]) -> CheckResult {
        let start = Instant::now();
        let cases = (self.cases)(ctx);
        let shards = ctx.threads.min((cases.len() / 64).max(1)).max(1);
        let mut outs: Vec<(Stats, Option<(usize, Failure)>)> = Vec::new();
        std::thread::scope(|scope| {
            let mut handles = Vec::new();
            for s in 0..shards {
                let cases = &cases;
                let eval = self.eval.clone();
                let name = self.name;
                handles.push(
                    std::thread::Builder::new()
                        .stack_size(64 << 20)
                        .spawn_scoped(scope, move || {
                            let mut stats = Stats::default();
                            let mut failure = None;
                            let slot = new_hang_slot::<C>(name);
                            let mut i = s;
                            while i < cases.len() {
                                let case = &cases[i];
                                match watched(&slot, case, || eval_guarded(&eval, case)) {
                                    Verdict::Pass(obs) => stats.record(name, case, &obs, 3),
                                    Verdict::Known { sig, detail } if is_listed(known, prop, sig) => {
                                        stats.evaluations += 1;
                                        let e = stats
                                            .known
                                            .entry(sig.to_string())
                                            .or_insert((0, detail.clone()));
                                        e.0 += 1;
                                    }
                                    other => {
                                        stats.evaluations += 1;
                                        let (message, harness_error) = match other {
                                            Verdict::Fail(m) => (m, false),
                                            Verdict::Known { sig, detail } => {
                                                (format!("[{}] {}", sig, detail), false)
                                            }
                                            Verdict::Harness(m) => (format!("HARNESS: {}", m), true),
                                            Verdict::Pass(_) => unreachable!(),
                                        };
                                        failure = Some((
                                            i,
                                            Failure {
                                                check: name.to_string(),
                                                message,
                                                case: serde_json::to_value(case)
                                                    .unwrap_or(serde_json::Value::Null),
                                                harness_error,
                                            },
                                        ));
                                        break;
                                    }
                                }
                                i += shards;
                            }
                            (stats, failure)
                        })
                        .expect("spawn shard"),
                );
            }
            for h in handles {
                if let Ok(o) = h.join() {
                    outs.push(o);
                }
            }
        });
        let mut stats = Stats::default();
        let mut failure: Option<(usize, Failure)> = None;
        let mut sub_eval = 0;
        let mut sub_nt: HashSet<u64> = HashSet::new();
        for (st, f) in outs {
            sub_eval += st.evaluations;
            sub_nt.extend(st.nontrivial.iter().copied());
            let mut st = st;
            if stats.samples.len() >= 3 {
                st.samples.clear();
            }
            stats.merge(st);
            if let Some((i, f)) = f {
                if failure.as_ref().map(|x| i < x.0).unwrap_or(true) {
                    failure = Some((i, f));
                }
            }
        }
        stats.samples.truncate(3);
        let complete = failure.is_none();
        stats.subs.push(SubReport {
            name: self.name.to_string(),
            generator: format!("enumeration of {} cases", cases.len()),
            evaluations: sub_eval,
            distinct_nontrivial: sub_nt.len() as u64,
            wall_s: start.elapsed().as_secs_f64(),
            exhaustive: self.exhaustive && complete,
        });
        CheckResult {
            stats,
            failure: failure.map(|x| x.1),
        }
    }

    fn replay(&self, case: serde_json::Value) -> Result<Verdict, String> {
        let c: C = serde_json::from_value(case).map_err(|e| format!("bad case json: {}", e))?;
        Ok(eval_guarded(&self.eval, &c))
    }
}

/// Draws `n` values from a strategy with a deterministic runner (used by enumerations that mix
/// an exhaustive dimension with generated fill, and by the isolated-process checks).
pub fn sample_strategy<C: Debug>(
    strategy: &BoxedStrategy<C>,
    n: usize,
    seed: [u8; 32],
) -> Vec<C> {
    let mut runner = new_runner(n as u32, seed);
    let mut out = Vec::with_capacity(n);
    for _ in 0..n {
        match strategy.new_tree(&mut runner) {
            Ok(tree) => out.push(tree.current()),
            Err(_) => break,
        }
    }
    out
}

// ------------------------------------------------------------------------------------------------
// Property specification and driver

pub struct PropSpec {
    pub id: &'static str,
    pub level: &'static str,
    pub rule: &'static str,
    pub assumptions: Vec<&'static str>,
    pub checks: Vec<Box<dyn DynCheck>>,
}

pub struct RunOutcome {
    pub exit_code: i32,
}

fn hash_hex(v: &serde_json::Value, check: &str) -> String {
    let mut h = DefaultHasher::new();
    check.hash(&mut h);
    v.to_string().hash(&mut h);
    format!("{:016x}", h.finish())
}

pub fn write_replay(ctx: &Ctx, prop: &str, f: &Failure) -> PathBuf {
    // VERIF_REPLAY_DIR: used by the mutant scripts so that replay files of seeded changes do not
    // land next to those of the tree under test.
    let dir = std::env::var_os("VERIF_REPLAY_DIR")
        .map(PathBuf::from)
        .unwrap_or_else(|| ctx.root.join("replays"));
    let _ = std::fs::create_dir_all(&dir);
    let path = dir.join(format!(
        "{}-{}-{}.json",
        prop,
        f.check,
        hash_hex(&f.case, &f.check)
    ));
    let doc = serde_json::json!({
        "property": prop,
        "check": f.check,
        "seed": ctx.seed,
        "tier": ctx.tier.name(),
        "message": f.message,
        "case": f.case,
    });
    let _ = std::fs::write(&path, serde_json::to_vec_pretty(&doc).unwrap_or_default());
    path
}

pub fn run_property(ctx: &Ctx, spec: &PropSpec, only: Option<&str>) -> RunOutcome {
    let start = Instant::now();
    let known = load_known_findings(&ctx.root);
    start_hang_monitor(ctx, spec.id);
    let mut stats = Stats::default();
    let mut failures: Vec<Failure> = Vec::new();
    for check in &spec.checks {
        if let Some(o) = only {
            if check.name() != o {
                continue;
            }
        }
        let r = check.run(ctx, spec.id, &known);
        stats.merge(r.stats);
        if let Some(f) = r.failure {
            // a hang / process death found in an isolated worker would hang or kill an in-process
            // sub-check that shares the generator: stop there.  Other failures (e.g. a caught
            // panic) let the remaining sub-checks run, so an in-process twin can shrink the case.
            let fatal = f.message.contains("worker process died") || f.message.contains("watchdog");
            failures.push(f);
            if fatal {
                break;
            }
        }
    }
    let wall = start.elapsed().as_secs_f64();
    let mut exit_code = 0;
    let mut violations = 0;
    for f in &failures {
        if f.harness_error {
            eprintln!(
                "HARNESS-ERROR property={} check={} {}",
                spec.id, f.check, f.message
            );
            let path = write_replay(ctx, spec.id, f);
            eprintln!("  case saved to {}", path.display());
            if exit_code == 0 {
                exit_code = 2;
            }
        } else {
            violations += 1;
            let path = write_replay(ctx, spec.id, f);
            println!("VIOLATION property={} replay={}", spec.id, path.display());
            println!("  check={} {}", f.check, truncate(&f.message, 2000));
            exit_code = 1;
        }
    }
    for (sig, (n, detail)) in &stats.known {
        let text = known
            .iter()
            .find(|k| k.property == spec.id && &k.signature == sig)
            .map(|k| k.text.clone())
            .unwrap_or_default();
        println!(
            "KNOWN-FINDING: property={} signature={} {} [{} case(s) this run; e.g. {}]",
            spec.id,
            sig,
            text,
            n,
            truncate(detail, 300)
        );
    }
    write_evidence(ctx, spec, &stats, wall, violations);
    println!(
        "{} {}: {} evaluations, {} distinct non-trivial, {} violation(s), {:.1}s",
        spec.id,
        ctx.tier.name(),
        stats.evaluations,
        stats.nontrivial.len(),
        violations,
        wall
    );
    RunOutcome { exit_code }
}

pub fn truncate(s: &str, n: usize) -> String {
    if s.len() <= n {
        s.to_string()
    } else {
        let mut end = n;
        while !s.is_char_boundary(end) {
            end -= 1;
        }
        format!("{}…", &s[..end])
    }
}

fn write_evidence(ctx: &Ctx, spec: &PropSpec, stats: &Stats, wall: f64, violations: u64) {
    // VERIF_EVIDENCE_DIR: used by the mutant scripts, so that runs against seeded changes do not
    // overwrite the evidence of the tree under test
    let dir = std::env::var_os("VERIF_EVIDENCE_DIR").map(PathBuf::from).unwrap_or_else(|| ctx.root.join("evidence"));
    let _ = std::fs::create_dir_all(&dir);
    let exhaustive_subs: Vec<&str> = stats
        .subs
        .iter()
        .filter(|s| s.exhaustive)
        .map(|s| s.name.as_str())
        .collect();
    let known: BTreeMap<&String, u64> = stats.known.iter().map(|(k, v)| (k, v.0)).collect();
    let doc = serde_json::json!({
        "property_id": spec.id,
        "tier": ctx.tier.name(),
        "seed": (ctx.seed & 0x7FFF_FFFF_FFFF_FFFF) as i64,
        "level": spec.level,
        "coverage": {
            "evaluations": stats.evaluations,
            "distinct_nontrivial": stats.nontrivial.len(),
            "rule": spec.rule,
            "samples": stats.samples,
            "classes": stats.classes,
            "counters": stats.counts,
            "subchecks": stats.subs,
            "exhaustive": false,
            "exhaustive_subchecks": exhaustive_subs,
            "known_finding_cases_set_aside": known,
        },
        "assumptions": spec.assumptions,
        "wall_s": wall,
        "violations": violations,
    });
    let path = dir.join(format!("{}.json", spec.id));
    let _ = std::fs::write(path, serde_json::to_vec_pretty(&doc).unwrap_or_default());
}

pub fn replay_file(specs: &[PropSpec], path: &std::path::Path) -> i32 {
    let text = match std::fs::read_to_string(path) {
        Ok(t) => t,
        Err(e) => {
            eprintln!("cannot read {}: {}", path.display(), e);
            return 2;
        }
    };
    let doc: serde_json::Value = match serde_json::from_str(&text) {
        Ok(d) => d,
        Err(e) => {
            eprintln!("bad replay json: {}", e);
            return 2;
        }
    };
    let prop = doc["property"].as_str().unwrap_or("");
    let check = doc["check"].as_str().unwrap_or("");
    let root = verif_root();
    let known = load_known_findings(&root);
    for spec in specs {
        if spec.id != prop {
            continue;
        }
        for c in &spec.checks {
            if c.name() != check {
                continue;
            }
            std::env::set_var("VERIF_REPLAY_PROP", prop);
            // a saved case may be one that makes the library hang: evaluate it on a helper thread
            let limit = std::env::var("VERIF_HANG_LIMIT_S").ok().and_then(|s| s.parse::<u64>().ok()).unwrap_or(HANG_LIMIT_S);
            let (tx, rx) = std::sync::mpsc::channel();
            let case_json = doc["case"].clone();
            let outcome = std::thread::scope(|scope| {
                scope.spawn(move || {
                    let _ = tx.send(c.replay(case_json));
                });
                match rx.recv_timeout(std::time::Duration::from_secs(limit)) {
                    Ok(r) => Some(r),
                    Err(_) => {
                        println!("VIOLATION property={} replay={}", prop, path.display());
                        println!("  check={} the evaluation of this case has not returned after {} s: a library call hangs or loops", check, limit);
                        use std::io::Write;
                        let _ = std::io::stdout().flush();
                        std::process::exit(1);
                    }
                }
            });
            return match outcome.unwrap() {
                Ok(Verdict::Pass(_)) => {
                    println!("replay {}: property {} holds on this case", path.display(), prop);
                    0
                }
                Ok(Verdict::Fail(m)) => {
                    println!("VIOLATION property={} replay={}", prop, path.display());
                    println!("  check={} {}", check, truncate(&m, 4000));
                    1
                }
                Ok(Verdict::Known { sig, detail }) => {
                    if is_listed(&known, prop, sig) {
                        println!(
                            "KNOWN-FINDING: property={} signature={} {}",
                            prop,
                            sig,
                            truncate(&detail, 2000)
                        );
                        0
                    } else {
                        println!("VIOLATION property={} replay={}", prop, path.display());
                        println!("  check={} [{}] {}", check, sig, truncate(&detail, 4000));
                        1
                    }
                }
                Ok(Verdict::Harness(m)) => {
                    eprintln!("HARNESS-ERROR {}", m);
                    2
                }
                Err(e) => {
                    eprintln!("{}", e);
                    2
                }
            };
        }
    }
    eprintln!("no check {}/{} registered", prop, check);
    2
}
