//! Generators shared by several properties.  Everything is a proptest strategy so that shrinking
//! and replay work; indices are mapped monotonically (never with `%`).

use proptest::prelude::*;
use proptest::strategy::BoxedStrategy;

/// u32 values biased to the boundaries the protocol cares about.
pub const U32_EDGES: &[u32] = &[
    0,
    1,
    2,
    3,
    127,
    128,
    129,
    255,
    256,
    0xFFFF,
    0x1_0000,
    0xFF_FFFD,
    0xFF_FFFE,
    0xFF_FFFF,
    0x100_0000,
    0x100_0001,
    0x1FF_FFFE,
    0x7FFF_FFFE,
    0x7FFF_FFFF,
    0x8000_0000,
    0x8000_0001,
    0xFF00_0000,
    0xFFFF_FFFD,
    0xFFFF_FFFE,
    0xFFFF_FFFF,
];

pub fn pick<T: Clone + std::fmt::Debug + 'static>(pool: &'static [T]) -> BoxedStrategy<T> {
    (0..pool.len()).prop_map(move |i| pool[i].clone()).boxed()
}

pub fn edge_u32() -> BoxedStrategy<u32> {
    prop_oneof![
        4 => pick(U32_EDGES),
        2 => 0u32..2000,
        2 => any::<u32>(),
        1 => (0u32..32, -2i64..3).prop_map(|(s, d)| ((1u64 << s) as i64 + d) as u32),
    ]
    .boxed()
}

/// Timestamp deltas: small forward steps, the extended-timestamp threshold, wraps, "negative".
pub fn delta_u32() -> BoxedStrategy<u32> {
    prop_oneof![
        3 => Just(0u32),
        6 => 1u32..100,
        2 => 100u32..100_000,
        3 => pick(&[0xFF_FFFEu32, 0xFF_FFFF, 0x100_0000, 0x100_0001, 0x7FFF_FFFF, 0x8000_0000, 0xFFFF_FFFF]),
        2 => (1u32..1000).prop_map(|k| 0u32.wrapping_sub(k)),
        1 => any::<u32>(),
    ]
    .boxed()
}

/// A partition of a byte stream described independently of its length: either a named shape or a
/// list of 16-bit fractions mapped monotonically into 0..=len.
#[derive(Clone, Debug, serde::Serialize, serde::Deserialize, PartialEq)]
pub enum Partition {
    Whole,
    ByteByByte,
    /// fixed piece size
    Every(u16),
    /// cut points as fractions of the length (i * (len+1) >> 16)
    Cuts(Vec<u16>),
    /// explicit absolute cut positions (used by exhaustive single-cut enumerations)
    At(Vec<u32>),
    /// the inner partition with an additional EMPTY call after every piece (a caller polling
    /// with no new bytes while a chunk / message is incomplete is legal)
    Polled(Box<Partition>),
}

impl Partition {
    /// Returns the piece boundaries: a sorted list of end offsets, the last being `len`.
    pub fn ends(&self, len: usize) -> Vec<usize> {
        let mut cuts: Vec<usize> = match self {
            Partition::Whole => vec![],
            Partition::ByteByByte => (1..len).collect(),
            Partition::Every(n) => {
                let n = (*n as usize).max(1);
                (1..=len / n).map(|i| i * n).filter(|c| *c < len).collect()
            }
            Partition::Cuts(f) => f
                .iter()
                .map(|x| ((*x as u64 * (len as u64 + 1)) >> 16) as usize)
                .collect(),
            Partition::At(v) => v.iter().map(|x| (*x as usize).min(len)).collect(),
            Partition::Polled(inner) => return inner.ends(len),
        };
        cuts.sort_unstable();
        cuts.dedup();
        cuts.retain(|c| *c > 0 && *c < len);
        cuts.push(len);
        cuts
    }

    /// Splits `data` into the pieces of this partition (an empty stream yields one empty piece).
    pub fn pieces<'a>(&self, data: &'a [u8]) -> Vec<&'a [u8]> {
        let polled = matches!(self, Partition::Polled(_));
        let mut out = Vec::new();
        let mut start = 0;
        for e in self.ends(data.len()) {
            out.push(&data[start..e]);
            if polled {
                out.push(&data[e..e]);
            }
            start = e;
        }
        out
    }
}

pub fn partition() -> BoxedStrategy<Partition> {
    let plain = prop_oneof![
        2 => Just(Partition::Whole),
        2 => Just(Partition::ByteByByte),
        2 => (1u16..40).prop_map(Partition::Every),
        5 => proptest::collection::vec(any::<u16>(), 1..12).prop_map(Partition::Cuts),
    ];
    prop_oneof![5 => plain.clone(), 1 => plain.prop_map(|p| Partition::Polled(Box::new(p)))].boxed()
}

/// Deterministic payload bytes for (seed, len): position-dependent so misplaced, duplicated or
/// dropped bytes are visible; cheap enough for 16 MiB payloads.
pub fn fill_bytes(seed: u32, len: usize) -> Vec<u8> {
    let mut v = Vec::with_capacity(len);
    let mut x = seed.wrapping_mul(2654435761).wrapping_add(0x9E37_79B9);
    for i in 0..len {
        if i % 4 == 0 {
            x ^= x << 13;
            x ^= x >> 17;
            x ^= x << 5;
        }
        v.push((x >> ((i % 4) * 8)) as u8 ^ (i as u8));
    }
    v
}

// ------------------------------------------------------------------------------------------------
// AMF0 values

use crate::refs::amf0::{S, V};

#[derive(Clone, Copy, Debug)]
pub struct AmfCfg {
    /// decoder-direction features: ECMA arrays with arbitrary count fields, Boolean bytes 0..255
    pub wire: bool,
    /// allow strings / names longer than 65535 bytes (the encoder must refuse those)
    pub too_long: bool,
    /// allow the empty property name
    pub empty_names: bool,
    pub max_depth: u32,
    /// chains of up to this many nested containers (0 = none).  The library documents a nesting
    /// limit of 128; 200 goes beyond it.
    pub chain: u32,
}

impl AmfCfg {
    pub const LIB: AmfCfg = AmfCfg { wire: false, too_long: false, empty_names: false, max_depth: 4, chain: 0 };
    pub const LIB_ANY: AmfCfg = AmfCfg { wire: false, too_long: true, empty_names: false, max_depth: 4, chain: 200 };
    pub const WIRE: AmfCfg = AmfCfg { wire: true, too_long: false, empty_names: false, max_depth: 4, chain: 0 };
    pub const SMALL: AmfCfg = AmfCfg { wire: false, too_long: false, empty_names: false, max_depth: 2, chain: 0 };
    /// as LIB / WIRE, plus chains beyond the library's nesting limit
    pub const LIB_DEEP: AmfCfg = AmfCfg { wire: false, too_long: false, empty_names: false, max_depth: 4, chain: 200 };
    pub const WIRE_DEEP: AmfCfg = AmfCfg { wire: true, too_long: false, empty_names: false, max_depth: 4, chain: 200 };
    /// as LIB / WIRE, plus chains up to the library's nesting limit
    pub const LIB_CHAIN: AmfCfg = AmfCfg { wire: false, too_long: false, empty_names: false, max_depth: 4, chain: 128 };
    pub const WIRE_CHAIN: AmfCfg = AmfCfg { wire: true, too_long: false, empty_names: false, max_depth: 4, chain: 128 };
}

pub const NUM_BITS: &[u64] = &[
    0x0000_0000_0000_0000, // +0
    0x8000_0000_0000_0000, // -0
    0x7FF0_0000_0000_0000, // +inf
    0xFFF0_0000_0000_0000, // -inf
    0x7FF8_0000_0000_0000, // quiet NaN
    0x7FF0_0000_0000_0001, // signalling NaN
    0xFFF8_0000_DEAD_BEEF, // negative quiet NaN with payload
    0x7FF4_0000_0000_0000, // signalling NaN, high payload bit
    0x0000_0000_0000_0001, // smallest subnormal
    0x000F_FFFF_FFFF_FFFF, // largest subnormal
    0x0010_0000_0000_0000, // smallest normal
    0x7FEF_FFFF_FFFF_FFFF, // largest finite
    0x3FF0_0000_0000_0000, // 1.0
    0xBFF0_0000_0000_0000, // -1.0
    0x41EF_FFFF_FFE0_0000, // 4294967295.0
    0x41F0_0000_0000_0000, // 4294967296.0
    0x4200_0000_0000_0000, // 2^33
    0xC000_0000_0000_0000, // -2.0
    // numbers whose big-endian bytes look like other AMF0 structures (marker bytes, lengths)
    0x0200_0361_6263_0505, // 02 00 03 'a' 'b' 'c' 05 05
    0x0300_0161_0500_0009, // 03 00 01 'a' 05 00 00 09
    0x0A00_0000_0105_0505, // 0A 00 00 00 01 05 ...
    0x0800_0000_0000_0009,
    0x0500_0000_0000_0000,
    0x0900_0000_0000_0000,
    0x0000_0900_0000_0000,
    0x0100_0000_0000_0000,
];

pub fn amf_number_bits() -> BoxedStrategy<u64> {
    prop_oneof![
        3 => pick(NUM_BITS),
        4 => (-1000i32..1000).prop_map(|i| (i as f64).to_bits()),
        2 => any::<f64>().prop_map(|f| f.to_bits()),
        1 => any::<u64>(),
    ]
    .boxed()
}

pub const NAME_POOL: &[&str] = &[
    "app", "code", "level", "description", "onMetaData", "@setDataFrame", "width", "height",
    "framerate", "stereo", "encoder", "objectEncoding", "tcUrl", "flashVer", "type", "a", "b",
    "connect", "_result", "_error", "onStatus", "live", "NetStream.Play.Start",
    "NetStream.Publish.Start", "key", "stream", "é", "日本語", "😀",
    // names that look like numbers / array indices (an ECMA array is an associative array whose
    // keys are often decimal indices), booleans, or reserved words
    "0", "1", "2", "10", "00", "-1", "1.5", "1e9", "2000000", "4294967296", "18446744073709551615", "NaN", "true", "null", "length", "__proto__",
];

pub fn amf_string(too_long: bool, allow_empty: bool) -> BoxedStrategy<S> {
    let base = prop_oneof![
        5 => "[a-zA-Z0-9_.@|/ -]{1,12}".prop_map(S::lit),
        3 => pick(NAME_POOL).prop_map(S::lit),
        2 => "\\PC{1,6}".prop_map(S::lit),
        // control characters, NULs (leading, interior, trailing), whitespace at the ends, BOM,
        // and arbitrary scalar values: all legal UTF-8 that a decoder must hand back untouched
        1 => pick(&["\0", "ab\0\0", "\0ab", "a\0b", "tab\there", "\u{7f}", "line\n", " padded ", "\u{feff}bom", "\r\n", "\u{1}\u{2}", "x\u{0}"]).prop_map(S::lit),
        1 => proptest::collection::vec(any::<char>(), 1..6).prop_map(|v| S::lit(v.into_iter().collect::<String>())),
        1 => pick(&[("a", 65535u32), ("a", 65534), ("é", 32767), ("€", 21845), ("😀", 16383), ("ab", 32767), ("a", 256), ("a", 255)])
            .prop_map(|(u, r)| S::rep(u, r)),
        // lengths whose HIGH byte is a marker-like value (0x00..0x11: 0x09xx is 2304..2559 bytes), made of
        // bytes that are themselves one-byte AMF0 values, so that a decoder which looks at the first
        // length byte as if it were a marker goes on decoding instead of failing loudly
        1 => (prop_oneof![6 => 0u8..0x12, 1 => any::<u8>()], any::<u8>(), pick(&["a", "\u{5}", "\u{6}", "\u{0}", "\u{9}"]))
            .prop_map(|(hi, lo, u)| S::rep(u, (((hi as u32) << 8) | lo as u32).max(1))),
    ];
    let with_empty = if allow_empty {
        prop_oneof![12 => base, 1 => Just(S::lit(""))].boxed()
    } else {
        base.boxed()
    };
    if too_long {
        prop_oneof![
            14 => with_empty,
            1 => pick(&[("a", 65536u32), ("a", 65537), ("a", 70000), ("é", 32768), ("a", 131071), ("a", 131072), ("ab", 65536)])
                .prop_map(|(u, r)| S::rep(u, r)),
        ]
        .boxed()
    } else {
        with_empty
    }
}

/// A name that differs from `base` but that a sloppy implementation might identify with it.
pub fn sibling_name(base: &str, sel: u8) -> Option<String> {
    let s = match sel % 8 {
        0 => base.to_uppercase(),
        1 => base.to_lowercase(),
        2 => format!("{}\0", base),
        3 => format!("{} ", base),
        4 => format!(" {}", base),
        5 => base.chars().take(base.chars().count().saturating_sub(1)).collect(),
        6 => base.replace('k', "\u{212A}").replace('a', "\u{430}"),
        _ => format!("{}{}", base, base),
    };
    if s == base || s.is_empty() { None } else { Some(s) }
}

fn dedup_pairs(pairs: Vec<(S, V)>) -> Vec<(S, V)> {
    let mut seen = std::collections::HashSet::new();
    pairs
        .into_iter()
        .filter(|(k, _)| seen.insert(k.build()))
        .collect()
}

pub fn amf_value(cfg: AmfCfg) -> BoxedStrategy<V> {
    let bool_s = if cfg.wire {
        prop_oneof![2 => Just(0u8), 2 => Just(1u8), 3 => any::<u8>()].boxed()
    } else {
        (0u8..2).boxed()
    };
    let leaf = prop_oneof![
        4 => amf_number_bits().prop_map(V::Num),
        2 => bool_s.prop_map(V::Bool),
        4 => amf_string(cfg.too_long, true).prop_map(V::Str),
        1 => Just(V::Null),
        1 => Just(V::Undef),
    ];
    let wire = cfg.wire;
    let too_long = cfg.too_long;
    let empty_names = cfg.empty_names;
    let chain = cfg.chain;
    let chain_leaf = prop_oneof![Just(V::Null), amf_number_bits().prop_map(V::Num), Just(V::Str(S::lit("x"))), Just(V::Obj(vec![])), Just(V::Arr(vec![]))];
    let tree = leaf.prop_recursive(cfg.max_depth, 24, 4, move |inner| {
        // property names, sometimes with a SIBLING of an earlier name next to it: the same name in
        // another case, with a trailing NUL / space, a prefix of it, or a look-alike - distinct
        // names which an implementation that normalises, trims or truncates names would merge
        let pairs = proptest::collection::vec((amf_string(too_long, empty_names), inner.clone(), any::<u8>()), 0..4)
            .prop_map(|v| {
                let mut out: Vec<(S, V)> = Vec::with_capacity(v.len());
                for (name, val, sel) in v {
                    if sel < 40 && !out.is_empty() {
                        let base = out[(sel as usize) % out.len()].0.build();
                        if base.len() <= 64 {
                            if let Some(sib) = sibling_name(&base, sel) {
                                out.push((S::lit(sib), val));
                                continue;
                            }
                        }
                    }
                    out.push((name, val));
                }
                out
            })
            .prop_map(dedup_pairs);
        // wide containers: element / property counts around powers of two and beyond 65535
        let wide_n = prop_oneof![pick(&[255u32, 256, 257, 1023, 1024, 1025, 4095, 4096, 4097, 65_535, 65_536, 70_000]), 258u32..3000];
        let wide = prop_oneof![
            2 => (prop_oneof![Just(V::Null), amf_number_bits().prop_map(V::Num), Just(V::Str(S::lit("ab"))), Just(V::Arr(vec![])), Just(V::Obj(vec![])), Just(V::Obj(vec![(S::lit("k"), V::Obj(vec![]))]))], wide_n.clone()).prop_map(|(v, n)| V::ArrRep(Box::new(v), n)),
            1 => (pick(&["p", "key_", "é"]), wide_n).prop_map(|(p, n)| V::ObjRep(S::lit(p), n.min(5_000))),
        ];
        if wire {
            prop_oneof![
                1 => wide,
                18 => pairs.clone().prop_map(V::Obj),
                12 => proptest::collection::vec(inner.clone(), 0..4).prop_map(V::Arr),
                // the count field is informative only: exact, zero, huge, random, and off by a little
                // in both directions (a decoder that honours a too-small count loses pairs)
                18 => (pairs, prop_oneof![3 => Just(0i64), 1 => Just(i64::MIN), 1 => Just(i64::MAX), 1 => any::<u32>().prop_map(|x| x as i64 + 1_000_000), 3 => -3i64..4])
                    .prop_map(|(p, c)| {
                        let n = p.len() as i64;
                        let count = match c {
                            i64::MIN => 0,
                            i64::MAX => u32::MAX,
                            x if x >= 1_000_000 => (x - 1_000_000) as u32,
                            x => (n + x).clamp(0, u32::MAX as i64) as u32,
                        };
                        V::Ecma(count, p)
                    }),
            ]
            .boxed()
        } else {
            prop_oneof![
                1 => wide,
                24 => pairs.prop_map(V::Obj),
                16 => proptest::collection::vec(inner.clone(), 0..4).prop_map(V::Arr),
            ]
            .boxed()
        }
    })
    .boxed();
    if chain == 0 {
        return tree;
    }
    // chains of nested containers: around 64 / 128 (limits an implementation may have), and any length
    let depths = prop_oneof![
        3 => pick(&[5u32, 31, 32, 33, 63, 64, 65, 100, 126, 127, 128, 129, 130, 200]).prop_map(move |d| d.min(chain)),
        1 => (1u32..=chain),
    ];
    prop_oneof![
        30 => tree,
        1 => (depths, any::<u32>(), chain_leaf).prop_map(move |(depth, seed, leaf)| V::Deep { depth, seed, wire, leaf: Box::new(leaf) }),
    ]
    .boxed()
}

pub fn amf_values(cfg: AmfCfg, max: usize) -> BoxedStrategy<Vec<V>> {
    proptest::collection::vec(amf_value(cfg), 0..=max).boxed()
}

// ------------------------------------------------------------------------------------------------
// Message sequences for the chunk codec (palette-based, see DESIGN.md §1.2)

use crate::drive::{MsgSpec, Op, Seq};

#[derive(Clone, Debug)]
pub enum LenSpec {
    Abs(u32),
    /// mult * current chunk size + off
    Rel(u8, i8),
}

impl LenSpec {
    pub fn resolve(&self, chunk_size: u32, cap: u32) -> u32 {
        match self {
            LenSpec::Abs(n) => (*n).min(cap),
            LenSpec::Rel(m, o) => {
                let base = (*m as u64 * chunk_size as u64).min(cap as u64) as i64;
                (base + *o as i64).clamp(0, cap as i64) as u32
            }
        }
    }
}

pub fn len_spec() -> BoxedStrategy<LenSpec> {
    prop_oneof![
        1 => Just(LenSpec::Abs(0)),
        3 => (1u32..10).prop_map(LenSpec::Abs),
        3 => (1u32..300).prop_map(LenSpec::Abs),
        3 => (0u8..4, -1i8..2).prop_map(|(m, o)| LenSpec::Rel(m, o)),
        2 => (300u32..2000).prop_map(LenSpec::Abs),
    ]
    .boxed()
}

pub fn type_id() -> BoxedStrategy<u8> {
    prop_oneof![
        12 => pick(&[8u8, 9, 18, 20, 4]),
        4 => pick(&[2u8, 3, 5, 6, 15, 17, 19, 0, 255, 22]),
        1 => any::<u8>(),
    ]
    // a raw type-1 message would be taken for a chunk-size change by the receiver although the
    // serializer did not change its size: outside the property's domain
    .prop_map(|t| if t == 1 { 2 } else { t })
    .boxed()
}

pub fn msid() -> BoxedStrategy<u32> {
    prop_oneof![
        6 => pick(&[0u32, 1, 2, 256, 0x0102_0304, 0xFFFF_FFFF, 0x8000_0000]),
        1 => any::<u32>(),
    ]
    .boxed()
}

pub fn chunk_size() -> BoxedStrategy<u32> {
    prop_oneof![
        4 => pick(&[1u32, 2, 3, 127, 128, 129, 4096, 65536, 0x7FFF_FFFF, 0x7FFF_FFFE]),
        4 => 1u32..300,
        1 => 1u32..0x8000_0000,
    ]
    .boxed()
}

#[derive(Clone, Copy, Debug)]
pub struct SeqCfg {
    pub max_ops: usize,
    pub drop_pct: u8,
    pub force_pct: u8,
    pub chunk_change_pct: u8,
    pub len_cap: u32,
}

/// chunk sizes for the large-message variants: several KiB, so that single chunks exceed the
/// buffers / thresholds (4096 and friends) an implementation may special-case
pub fn chunk_size_large() -> BoxedStrategy<u32> {
    prop_oneof![
        4 => pick(&[4095u32, 4096, 4097, 5000, 8191, 8192, 8193, 16_384, 65_535, 65_536]),
        // above 64 KiB (an announced size must be the size actually used, however large)
        2 => pick(&[65_537u32, 69_999, 70_000, 100_000, 0x0100_0000, 0x7FFF_FFFF]),
        2 => 4000u32..20_000,
        1 => chunk_size(),
    ]
    .boxed()
}

/// lengths for the large-message variants
pub fn len_spec_large() -> BoxedStrategy<LenSpec> {
    prop_oneof![
        2 => (1u32..300).prop_map(LenSpec::Abs),
        3 => (1u8..4, -1i8..2).prop_map(|(m, o)| LenSpec::Rel(m, o)),
        3 => (4000u32..40_000).prop_map(LenSpec::Abs),
        1 => pick(&[4095u32, 4096, 4097, 8192, 12_288, 65_535, 65_536, 65_537]).prop_map(LenSpec::Abs),
    ]
    .boxed()
}

/// Sequences of a few LARGE messages with chunk sizes of several KiB.
pub fn msg_seq_large(max_ops: usize) -> BoxedStrategy<Seq> {
    let op = prop_oneof![
        1 => chunk_size_large().prop_map(|c| (None, Some(c))),
        4 => (pick(&[8u8, 9, 18, 20]), pick(&[1u32, 1, 0]), delta_u32(), len_spec_large(), any::<u32>(), 0u8..100, 0u8..100)
            .prop_map(|(type_id, msid, dts, len, fill, f, d)| (Some((type_id, msid, dts, len, fill, f < 8, d < 15)), None)),
    ];
    (chunk_size_large(), proptest::collection::vec(op, 1..=max_ops))
        .prop_map(|(first, ops)| {
            let mut out = vec![Op::Chunk(first)];
            let mut cs = first;
            for (m, c) in ops {
                if let Some(c) = c {
                    out.push(Op::Chunk(c));
                    cs = c;
                }
                if let Some((type_id, msid, dts, len, fill, force, drop)) = m {
                    out.push(Op::Msg(MsgSpec { type_id, msid, dts, len: len.resolve(cs, 70_000), fill, force, drop }));
                }
            }
            Seq { ops: out }
        })
        .boxed()
}

/// Foreign-sender sequences of a few LARGE messages.
pub fn foreign_ops_large(max_ops: usize) -> BoxedStrategy<Vec<FOp>> {
    let op = prop_oneof![
        1 => chunk_size_large().prop_map(|c| (None, Some(c))),
        4 => (pick(&[3u32, 4, 64, 320]), pick(&[8u8, 9, 20]), pick(&[1u32, 1, 0]), delta_u32(), len_spec_large(), any::<u32>(), 0u8..4)
            .prop_map(|(csid, type_id, msid, dts, len, fill, want_fmt)| (Some((csid, type_id, msid, dts, len, fill, want_fmt)), None)),
    ];
    (chunk_size_large(), proptest::collection::vec(op, 1..=max_ops))
        .prop_map(|(first, ops)| {
            let mut out = vec![FOp::Chunk(first)];
            let mut cs = first;
            for (m, c) in ops {
                if let Some(c) = c {
                    out.push(FOp::Chunk(c));
                    cs = c;
                }
                if let Some((csid, type_id, msid, dts, len, fill, want_fmt)) = m {
                    out.push(FOp::Msg(FMsg { csid, want_fmt, three_byte: false, fmt0_cont: false, type_id, msid, dts, len: len.resolve(cs, 70_000), fill }));
                }
            }
            out
        })
        .boxed()
}

/// partitions for large streams: a few cuts, fixed pieces of KiB size, rarely byte-by-byte
pub fn partition_large() -> BoxedStrategy<Partition> {
    prop_oneof![
        1 => Just(Partition::Whole),
        6 => proptest::collection::vec(any::<u16>(), 1..8).prop_map(Partition::Cuts),
        3 => prop_oneof![pick(&[4095u16, 4096, 4097, 1000, 5000, 8192]), 500u16..9000].prop_map(Partition::Every),
        1 => proptest::collection::vec(any::<u16>(), 1..8).prop_map(|c| Partition::Polled(Box::new(Partition::Cuts(c)))),
    ]
    .boxed()
}

impl SeqCfg {
    pub const DEFAULT: SeqCfg = SeqCfg { max_ops: 12, drop_pct: 15, force_pct: 10, chunk_change_pct: 10, len_cap: 6000 };
}

/// Long histories on ONE serializer that touch many message streams: n message streams carrying
/// one video and one audio message each (an implementation that allocates something per message
/// stream - a chunk stream id, a table slot - runs out of the small range somewhere), then more
/// messages on earlier streams.
pub fn msg_seq_many_msids() -> BoxedStrategy<Seq> {
    (
        pick(&[28u32, 29, 30, 57, 58, 59, 62, 63, 64, 65, 100, 160, 320, 700]),
        prop_oneof![Just(1u32), Just(2u32), 3u32..1000, Just(0x0100_0000u32)],
        any::<u32>(),
        0u32..12,
        pick(&[0u32, 1, 20, 40]),
        proptest::collection::vec(any::<u16>(), 0..10),
    )
        .prop_map(|(n, stride, base, len, dts, revisit)| {
            let msid_of = |i: u32| base.wrapping_add(i.wrapping_mul(stride));
            let mut ops = Vec::new();
            for i in 0..n {
                for type_id in [9u8, 8] {
                    ops.push(Op::Msg(MsgSpec { type_id, msid: msid_of(i), dts, len, fill: i, force: false, drop: false }));
                }
            }
            for (k, f) in revisit.iter().enumerate() {
                let i = ((*f as u64 * n as u64) >> 16) as u32;
                ops.push(Op::Msg(MsgSpec { type_id: 8 + (k % 2) as u8, msid: msid_of(i), dts, len, fill: 9000 + k as u32, force: false, drop: false }));
            }
            Seq { ops }
        })
        .boxed()
}

pub fn msg_seq(cfg: SeqCfg) -> BoxedStrategy<Seq> {
    let palette = (
        proptest::collection::vec(type_id(), 1..=2),
        proptest::collection::vec(msid(), 1..=2),
        proptest::collection::vec(delta_u32(), 1..=2),
        proptest::collection::vec(len_spec(), 1..=2),
    );
    let draft = (
        (0u8..100, 0u8..100, 0u8..100, 0u8..100, 0u8..100),
        (any::<u16>(), any::<u16>(), any::<u16>(), any::<u16>()),
        (type_id(), msid(), delta_u32(), len_spec()),
        (any::<u32>(), 0u8..100, 0u8..100, chunk_size()),
    );
    (palette, proptest::collection::vec(draft, 1..=cfg.max_ops))
        .prop_map(move |((pt, pm, pd, pl), drafts)| {
            let mut ops = Vec::new();
            let mut cs = 128u32;
            let ix = |i: u16, n: usize| ((i as usize) * n) >> 16;
            for ((kind, st, sm, sd, sl), (it, im, id, il), (ot, om, od, ol), (fill, f, d, new_cs)) in drafts {
                if kind < cfg.chunk_change_pct {
                    ops.push(Op::Chunk(new_cs));
                    cs = new_cs;
                    continue;
                }
                let type_id = if st < 85 { pt[ix(it, pt.len())] } else { ot };
                let msid = if sm < 85 { pm[ix(im, pm.len())] } else { om };
                let dts = if sd < 85 { pd[ix(id, pd.len())] } else { od };
                let len = if sl < 85 { pl[ix(il, pl.len())].clone() } else { ol };
                ops.push(Op::Msg(MsgSpec {
                    type_id,
                    msid,
                    dts,
                    len: len.resolve(cs, cfg.len_cap),
                    fill,
                    force: f < cfg.force_pct,
                    drop: d < cfg.drop_pct,
                }));
            }
            Seq { ops }
        })
        .boxed()
}

// ------------------------------------------------------------------------------------------------
// Foreign sender sequences (C06, C15, C16)

use crate::drive::{FMsg, FOp};

pub fn csid() -> BoxedStrategy<u32> {
    prop_oneof![
        6 => 2u32..9,
        // boundaries of the 1/2/3-byte forms and pairs that alias under plausible decoding
        // mistakes (264/520 and 319/575 differ by 256, 65/320 by a swapped byte)
        4 => pick(&[63u32, 64, 65, 264, 318, 319, 320, 321, 520, 575, 576, 65598, 65599]),
        1 => 2u32..65600,
    ]
    .boxed()
}

pub fn foreign_ops(max_ops: usize, chunk_change_pct: u8, len_cap: u32) -> BoxedStrategy<Vec<FOp>> {
    let palette = (
        proptest::collection::vec(csid(), 1..=3),
        proptest::collection::vec(type_id(), 1..=2),
        proptest::collection::vec(msid(), 1..=2),
        proptest::collection::vec(delta_u32(), 1..=2),
        proptest::collection::vec(len_spec(), 1..=2),
    );
    let draft = (
        (0u8..100, 0u8..100, 0u8..100, 0u8..100, 0u8..100, 0u8..100),
        (any::<u16>(), any::<u16>(), any::<u16>(), any::<u16>(), any::<u16>()),
        (csid(), type_id(), msid(), delta_u32(), len_spec()),
        (any::<u32>(), prop_oneof![1 => Just(0u8), 1 => Just(1u8), 1 => Just(2u8), 6 => Just(3u8)], 0u8..100, 0u8..100, chunk_size()),
    );
    (palette, proptest::collection::vec(draft, 1..=max_ops))
        .prop_map(move |((pc, pt, pm, pd, pl), drafts)| {
            let mut ops = Vec::new();
            let mut cs = 128u32;
            let ix = |i: u16, n: usize| ((i as usize) * n) >> 16;
            for ((kind, sc, st, sm, sd, sl), (ic, it, im, id, il), (oc, ot, om, od, ol), (fill, want_fmt, tb, f0, new_cs)) in drafts {
                if kind < chunk_change_pct {
                    ops.push(FOp::Chunk(new_cs));
                    cs = new_cs;
                    continue;
                }
                let csid = if sc < 90 { pc[ix(ic, pc.len())] } else { oc };
                let type_id = if st < 85 { pt[ix(it, pt.len())] } else { ot };
                let msid = if sm < 85 { pm[ix(im, pm.len())] } else { om };
                let dts = if sd < 85 { pd[ix(id, pd.len())] } else { od };
                let len = if sl < 85 { pl[ix(il, pl.len())].clone() } else { ol };
                // now and then a protocol control message whose CONTENT names a chunk stream in use:
                // an Abort (type 2, payload = the chunk stream id; with nothing in flight it discards
                // nothing and must leave that stream's header history alone)
                if kind >= 97 {
                    let named = ops.iter().rev().find_map(|o| if let FOp::Msg(m) = o { Some(m.csid) } else { None });
                    if let Some(named) = named {
                        ops.push(FOp::Msg(FMsg { csid: 2, want_fmt, three_byte: false, fmt0_cont: false, type_id: 2, msid: 0, dts: 0, len: 4, fill: named }));
                    }
                }
                ops.push(FOp::Msg(FMsg {
                    csid,
                    want_fmt,
                    three_byte: tb < 10,
                    fmt0_cont: f0 < 5,
                    type_id,
                    msid,
                    dts,
                    len: len.resolve(cs, len_cap),
                    fill,
                }));
            }
            ops
        })
        .boxed()
}


/// Many distinct chunk streams: `n` format-0 messages on `n` different csids, then compressed
/// follow-ups on a sample of the OLDER ones (per-chunk-stream header state must survive any
/// number of other chunk streams; tables with 64 / 256 / 1024 / 4096 entries are plausible
/// implementation limits).
pub fn foreign_ops_many_streams() -> BoxedStrategy<Vec<FOp>> {
    (
        pick(&[63u32, 64, 65, 66, 100, 255, 256, 257, 1023, 1024, 1025, 1100, 2048, 4097]),
        prop_oneof![Just(1u32), Just(2u32), 3u32..16],
        proptest::collection::vec(any::<u16>(), 1..8),
        pick(&[0u32, 1, 20, 0xFF_FFFF]),
        0u32..40,
        any::<bool>(),
    )
        .prop_map(|(n, stride, revisit, dts, len, again)| {
            let csid_of = |i: u32| 2 + (i * stride) % 65_598;
            let mut ops = Vec::new();
            for i in 0..n {
                ops.push(FOp::Msg(FMsg { csid: csid_of(i), want_fmt: 0, three_byte: false, fmt0_cont: false, type_id: 8 + (i % 2) as u8, msid: 1, dts: dts.wrapping_add(i), len, fill: i }));
            }
            let rounds = if again { 2 } else { 1 };
            for r in 0..rounds {
                for (k, f) in revisit.iter().enumerate() {
                    let i = ((*f as u64 * n as u64) >> 16) as u32;
                    ops.push(FOp::Msg(FMsg { csid: csid_of(i), want_fmt: 3, three_byte: false, fmt0_cont: false, type_id: 8 + (i % 2) as u8, msid: 1, dts: dts.wrapping_add(i), len, fill: 7000 + k as u32 + r }));
                }
            }
            ops
        })
        .boxed()
}
