//! Generators shared by several properties.  Everything is a proptest strategy so that shrinking
//! and replay work; indices are mapped monotonically (never with `%`).

use proptest::prelude::*;
use proptest::strategy::BoxedStrategy;

/// u32 values biased to the boundaries the protocol cares about.
pub const U32_EDGES: &[u32] = &[
    0,
    1,
    2,
    3,
    127,
    128,
    129,
    255,
    256,
    0xFFFF,
    0x1_0000,
    0xFF_FFFD,
    0xFF_FFFE,
    0xFF_FFFF,
    0x100_0000,
    0x100_0001,
    0x1FF_FFFE,
    0x7FFF_FFFE,
    0x7FFF_FFFF,
    0x8000_0000,
    0x8000_0001,
    0xFF00_0000,
    0xFFFF_FFFD,
    0xFFFF_FFFE,
    0xFFFF_FFFF,
];

pub fn pick<T: Clone + std::fmt::Debug + 'static>(pool: &'static [T]) -> BoxedStrategy<T> {
    (0..pool.len()).prop_map(move |i| pool[i].clone()).boxed()
}

pub fn edge_u32() -> BoxedStrategy<u32> {
    prop_oneof![
        4 => pick(U32_EDGES),
        2 => 0u32..2000,
        2 => any::<u32>(),
        1 => (0u32..32, -2i64..3).prop_map(|(s, d)| ((1u64 << s) as i64 + d) as u32),
    ]
    .boxed()
}

/// Timestamp deltas: small forward steps, the extended-timestamp threshold, wraps, "negative".
pub fn delta_u32() -> BoxedStrategy<u32> {
    prop_oneof![
        3 => Just(0u32),
        6 => 1u32..100,
        2 => 100u32..100_000,
        3 => pick(&[0xFF_FFFEu32, 0xFF_FFFF, 0x100_0000, 0x100_0001, 0x7FFF_FFFF, 0x8000_0000, 0xFFFF_FFFF]),
        2 => (1u32..1000).prop_map(|k| 0u32.wrapping_sub(k)),
        1 => any::<u32>(),
    ]
    .boxed()
}

/// A partition of a byte stream described independently of its length: either a named shape or a
/// list of 16-bit fractions mapped monotonically into 0..=len.
#[derive(Clone, Debug, serde::Serialize, serde::Deserialize, PartialEq)]
pub enum Partition {
    Whole,
    ByteByByte,
    /// fixed piece size
    Every(u16),
    /// cut points as fractions of the length (i * (len+1) >> 16)
    Cuts(Vec<u16>),
    /// explicit absolute cut positions (used by exhaustive single-cut enumerations)
    At(Vec<u32>),
}

impl Partition {
    /// Returns the piece boundaries: a sorted list of end offsets, the last being `len`.
    pub fn ends(&self, len: usize) -> Vec<usize> {
        let mut cuts: Vec<usize> = match self {
            Partition::Whole => vec![],
            Partition::ByteByByte => (1..len).collect(),
            Partition::Every(n) => {
                let n = (*n as usize).max(1);
                (1..=len / n).map(|i| i * n).filter(|c| *c < len).collect()
            }
            Partition::Cuts(f) => f
                .iter()
                .map(|x| ((*x as u64 * (len as u64 + 1)) >> 16) as usize)
                .collect(),
            Partition::At(v) => v.iter().map(|x| (*x as usize).min(len)).collect(),
        };
        cuts.sort_unstable();
        cuts.dedup();
        cuts.retain(|c| *c > 0 && *c < len);
        cuts.push(len);
        cuts
    }

    /// Splits `data` into the pieces of this partition (an empty stream yields one empty piece).
    pub fn pieces<'a>(&self, data: &'a [u8]) -> Vec<&'a [u8]> {
        let mut out = Vec::new();
        let mut start = 0;
        for e in self.ends(data.len()) {
            out.push(&data[start..e]);
            start = e;
        }
        out
    }
}

pub fn partition() -> BoxedStrategy<Partition> {
    prop_oneof![
        2 => Just(Partition::Whole),
        2 => Just(Partition::ByteByByte),
        2 => (1u16..40).prop_map(Partition::Every),
        5 => proptest::collection::vec(any::<u16>(), 1..12).prop_map(Partition::Cuts),
    ]
    .boxed()
}

/// Deterministic payload bytes for (seed, len): position-dependent so misplaced, duplicated or
/// dropped bytes are visible; cheap enough for 16 MiB payloads.
pub fn fill_bytes(seed: u32, len: usize) -> Vec<u8> {
    let mut v = Vec::with_capacity(len);
    let mut x = seed.wrapping_mul(2654435761).wrapping_add(0x9E37_79B9);
    for i in 0..len {
        if i % 4 == 0 {
            x ^= x << 13;
            x ^= x >> 17;
            x ^= x << 5;
        }
        v.push((x >> ((i % 4) * 8)) as u8 ^ (i as u8));
    }
    v
}
