//! Child-process isolation for checks whose failure mode kills the process (stack overflow,
//! allocation failure, endless loop): C03 (memory / hang part), C14, C19.
//!
//! `vcheck` forks itself as `vcheck worker <prop> <check>`.  The parent sends cases as JSON lines;
//! the worker announces each case ("BEGIN i") before running it on a thread with an explicit stack
//! size and with the counting allocator's hard cap armed, then reports the verdict ("END i json").
//! Death by signal / exit 77 / watchdog is attributed to the announced case, which is re-run alone
//! in a fresh worker to confirm before it is reported.

use crate::core::*;
use proptest::strategy::BoxedStrategy;
use serde::{Deserialize, Serialize};
use std::collections::HashSet;
use std::io::{BufRead, BufReader, Write};
use std::process::{Command, Stdio};
use std::sync::mpsc;
use std::sync::Arc;
use std::time::{Duration, Instant};

#[derive(Serialize, Deserialize, Debug, Clone)]
pub enum WireVerdict {
    Pass { nontrivial: bool, classes: Vec<String>, counts: Vec<(String, u64)> },
    Fail(String),
    Known { sig: String, detail: String },
    Harness(String),
}

impl WireVerdict {
    fn from(v: Verdict) -> WireVerdict {
        match v {
            Verdict::Pass(o) => WireVerdict::Pass {
                nontrivial: o.nontrivial,
                classes: o.classes.iter().map(|s| s.to_string()).collect(),
                counts: o.counts.iter().map(|(k, v)| (k.to_string(), *v)).collect(),
            },
            Verdict::Fail(m) => WireVerdict::Fail(m),
            Verdict::Known { sig, detail } => WireVerdict::Known { sig: sig.to_string(), detail },
            Verdict::Harness(m) => WireVerdict::Harness(m),
        }
    }
}

pub struct IsoCheck<C: CaseT> {
    pub name: &'static str,
    /// generated cases
    pub strategy: Option<Arc<dyn Fn(&Ctx) -> BoxedStrategy<C> + Send + Sync>>,
    pub quick: u64,
    pub thorough: u64,
    /// explicit cases, evaluated in addition to the generated ones
    pub fixed: Arc<dyn Fn(&Ctx) -> Vec<C> + Send + Sync>,
    pub eval: EvalFn<C>,
    /// stack size of the thread the case runs on
    pub stack: usize,
    /// hard cap on live heap bytes in the worker
    pub cap: usize,
    /// per-case watchdog
    pub watchdog: Duration,
    pub max_workers: usize,
}

impl<C: CaseT> IsoCheck<C> {
    /// Worker side: reads cases from stdin, evaluates, reports.
    pub fn worker_loop(&self) {
        crate::alloc::enable(self.cap);
        let stdin = std::io::stdin();
        let stdout = std::io::stdout();
        for (i, line) in stdin.lock().lines().enumerate() {
            let line = match line {
                Ok(l) => l,
                Err(_) => break,
            };
            if line.trim().is_empty() {
                continue;
            }
            {
                let mut o = stdout.lock();
                let _ = writeln!(o, "BEGIN {}", i);
                let _ = o.flush();
            }
            let verdict = match serde_json::from_str::<C>(&line) {
                Err(e) => WireVerdict::Harness(format!("worker cannot parse case: {}", e)),
                Ok(case) => {
                    let eval = self.eval.clone();
                    let h = std::thread::Builder::new().stack_size(self.stack).spawn(move || eval_guarded(&eval, &case));
                    match h {
                        Ok(h) => match h.join() {
                            Ok(v) => WireVerdict::from(v),
                            Err(_) => WireVerdict::Fail("evaluation thread panicked outside the guarded region".to_string()),
                        },
                        Err(e) => WireVerdict::Harness(format!("cannot spawn evaluation thread: {}", e)),
                    }
                }
            };
            let mut o = stdout.lock();
            let _ = writeln!(o, "END {} {}", i, serde_json::to_string(&verdict).unwrap_or_else(|_| "\"Harness\"".to_string()));
            let _ = o.flush();
        }
    }

    /// Parent side: runs `cases` (index, json) in one worker process after another until all are
    /// done; a dead worker is replaced and the case it was running gets a synthetic verdict.
    ///
    /// `stop` is raised by the first slice that loses a worker (signal, allocation cap, watchdog):
    /// the other slices then end after the case they are evaluating, so a tree on which many cases
    /// hang costs one watchdog period per worker rather than one per hanging case.
    fn run_slice(&self, prop: &str, cases: &[(usize, String)], stop: &std::sync::atomic::AtomicBool) -> Vec<(usize, WireVerdict)> {
        use std::sync::atomic::Ordering;
        let mut out = Vec::new();
        let mut next = 0usize;
        while next < cases.len() {
            if stop.load(Ordering::SeqCst) {
                return out;
            }
            let exe = match std::env::current_exe() {
                Ok(e) => e,
                Err(e) => {
                    out.push((cases[next].0, WireVerdict::Harness(format!("current_exe: {}", e))));
                    return out;
                }
            };
            let mut child = match Command::new(exe)
                .arg("worker")
                .arg(prop)
                .arg(self.name)
                .stdin(Stdio::piped())
                .stdout(Stdio::piped())
                .stderr(Stdio::piped())
                .spawn()
            {
                Ok(c) => c,
                Err(e) => {
                    out.push((cases[next].0, WireVerdict::Harness(format!("cannot spawn worker: {}", e))));
                    return out;
                }
            };
            let mut stdin = child.stdin.take().unwrap();
            let stdout = child.stdout.take().unwrap();
            let mut stderr = child.stderr.take().unwrap();
            let batch: Vec<String> = cases[next..].iter().map(|c| c.1.clone()).collect();
            let writer = std::thread::spawn(move || {
                for l in batch {
                    if stdin.write_all(l.as_bytes()).is_err() || stdin.write_all(b"\n").is_err() {
                        break;
                    }
                }
            });
            let err_reader = std::thread::spawn(move || {
                let mut s = String::new();
                let _ = std::io::Read::read_to_string(&mut stderr, &mut s);
                s
            });
            let (tx, rx) = mpsc::channel::<String>();
            let reader = std::thread::spawn(move || {
                for l in BufReader::new(stdout).lines() {
                    match l {
                        Ok(l) => {
                            if tx.send(l).is_err() {
                                break;
                            }
                        }
                        Err(_) => break,
                    }
                }
            });
            let base = next;
            let mut running: Option<usize> = None; // local index announced by BEGIN
            let mut died: Option<String> = None;
            loop {
                match rx.recv_timeout(self.watchdog) {
                    Ok(line) => {
                        if let Some(rest) = line.strip_prefix("BEGIN ") {
                            running = rest.trim().parse::<usize>().ok();
                        } else if let Some(rest) = line.strip_prefix("END ") {
                            let mut it = rest.splitn(2, ' ');
                            let i = it.next().and_then(|x| x.parse::<usize>().ok());
                            let v = it.next().and_then(|j| serde_json::from_str::<WireVerdict>(j).ok());
                            if let (Some(i), Some(v)) = (i, v) {
                                out.push((cases[base + i].0, v));
                                next = base + i + 1;
                                running = None;
                                if stop.load(Ordering::SeqCst) {
                                    let _ = child.kill();
                                    let _ = child.wait();
                                    return out;
                                }
                            }
                        }
                    }
                    Err(mpsc::RecvTimeoutError::Timeout) => {
                        let _ = child.kill();
                        died = Some(format!("no return within {:.0} s (watchdog): the call hangs or loops", self.watchdog.as_secs_f64()));
                        break;
                    }
                    Err(mpsc::RecvTimeoutError::Disconnected) => break,
                }
            }
            let status = child.wait();
            let _ = writer.join();
            let _ = reader.join();
            let stderr_text = err_reader.join().unwrap_or_default();
            if next >= cases.len() && died.is_none() {
                break;
            }
            // the worker ended early: attribute to the announced case
            let reason = died.unwrap_or_else(|| {
                let st = match &status {
                    Ok(s) => {
                        #[cfg(unix)]
                        {
                            use std::os::unix::process::ExitStatusExt;
                            if let Some(sig) = s.signal() {
                                format!("killed by signal {}", sig)
                            } else if s.code() == Some(crate::alloc::CAP_EXIT_CODE) {
                                format!("heap allocation cap of {} bytes exceeded", self.cap)
                            } else {
                                format!("exit status {:?}", s.code())
                            }
                        }
                        #[cfg(not(unix))]
                        {
                            format!("{:?}", s)
                        }
                    }
                    Err(e) => format!("wait failed: {}", e),
                };
                let tail: String = stderr_text.lines().rev().take(3).collect::<Vec<_>>().into_iter().rev().collect::<Vec<_>>().join(" | ");
                format!("worker process died: {} [{}]", st, truncate(&tail, 300))
            });
            let idx = base + running.unwrap_or(next - base);
            if idx < cases.len() {
                stop.store(true, Ordering::SeqCst);
                out.push((cases[idx].0, WireVerdict::Fail(reason)));
                next = idx + 1;
            } else {
                break;
            }
        }
        out
    }

    fn all_cases(&self, ctx: &Ctx, prop: &str) -> Vec<C> {
        let mut v = (self.fixed)(ctx);
        if let Some(s) = &self.strategy {
            let n = ctx.cases(self.quick, self.thorough) as usize;
            let strat = s(ctx);
            v.extend(sample_strategy(&strat, n, mix_seed(ctx.seed, &[prop, self.name], 0)));
        }
        v
    }
}

impl<C: CaseT> DynCheck for IsoCheck<C> {
    fn name(&self) -> &str {
        self.name
    }

    fn run(&self, ctx: &Ctx, prop: &str, known: &[KnownFinding]) -> CheckResult {
        let start = Instant::now();
        let cases = self.all_cases(ctx, prop);
        let jsons: Vec<(usize, String)> = cases.iter().enumerate().map(|(i, c)| (i, serde_json::to_string(c).unwrap_or_default())).collect();
        let workers = ctx.threads.min(self.max_workers).min(jsons.len().max(1)).max(1);
        let mut results: Vec<(usize, WireVerdict)> = Vec::new();
        let stop = std::sync::atomic::AtomicBool::new(false);
        let stop = &stop;
        std::thread::scope(|scope| {
            let mut hs = Vec::new();
            for w in 0..workers {
                let slice: Vec<(usize, String)> = jsons.iter().filter(|(i, _)| i % workers == w).cloned().collect();
                hs.push(scope.spawn(move || self.run_slice(prop, &slice, stop)));
            }
            for h in hs {
                if let Ok(r) = h.join() {
                    results.extend(r);
                }
            }
        });
        results.sort_by_key(|r| r.0);
        let mut stats = Stats::default();
        let mut failure: Option<Failure> = None;
        let mut nt: HashSet<u64> = HashSet::new();
        let mut evaluated = 0u64;
        for (i, v) in results {
            evaluated += 1;
            stats.evaluations += 1;
            match v {
                WireVerdict::Pass { nontrivial, classes, counts } => {
                    for c in classes {
                        *stats.classes.entry(format!("{}/{}", self.name, c)).or_insert(0) += 1;
                    }
                    for (k, n) in counts {
                        *stats.counts.entry(format!("{}/{}", self.name, k)).or_insert(0) += n;
                    }
                    if nontrivial {
                        use std::hash::{Hash, Hasher};
                        let mut h = std::collections::hash_map::DefaultHasher::new();
                        self.name.hash(&mut h);
                        jsons[i].1.hash(&mut h);
                        let fp = h.finish();
                        if stats.nontrivial.insert(fp) {
                            nt.insert(fp);
                            if stats.samples.len() < 3 {
                                stats.samples.push(serde_json::json!({"check": self.name, "case": serde_json::from_str::<serde_json::Value>(&truncate_json(&jsons[i].1)).unwrap_or(serde_json::Value::Null)}));
                            }
                        }
                    }
                }
                WireVerdict::Known { sig, detail } if known.iter().any(|k| k.property == prop && k.signature == sig) => {
                    let e = stats.known.entry(sig).or_insert((0, detail));
                    e.0 += 1;
                }
                other => {
                    if failure.is_some() {
                        continue;
                    }
                    let (mut message, mut harness_error) = match other {
                        WireVerdict::Fail(m) => (m, false),
                        WireVerdict::Known { sig, detail } => (format!("[{}] {}", sig, detail), false),
                        WireVerdict::Harness(m) => (format!("HARNESS: {}", m), true),
                        WireVerdict::Pass { .. } => unreachable!(),
                    };
                    // confirm alone in a fresh worker
                    if !harness_error {
                        let again = self.run_slice(prop, &[(i, jsons[i].1.clone())], &std::sync::atomic::AtomicBool::new(false));
                        match again.first().map(|x| &x.1) {
                            Some(WireVerdict::Pass { .. }) => {
                                message = format!("not reproducible when re-run alone in a fresh worker (first run: {})", message);
                                harness_error = true;
                            }
                            Some(WireVerdict::Fail(m2)) => message = format!("{} (confirmed in a fresh worker: {})", message, truncate(m2, 300)),
                            _ => {}
                        }
                    }
                    failure = Some(Failure { check: self.name.to_string(), message, case: serde_json::from_str(&jsons[i].1).unwrap_or(serde_json::Value::Null), harness_error });
                }
            }
        }
        if evaluated < jsons.len() as u64 && failure.is_none() && !stop.load(std::sync::atomic::Ordering::SeqCst) {
            failure = Some(Failure { check: self.name.to_string(), message: format!("only {} of {} cases came back from the workers", evaluated, jsons.len()), case: serde_json::Value::Null, harness_error: true });
        }
        stats.subs.push(SubReport {
            name: self.name.to_string(),
            generator: format!("{} cases in {} isolated worker process(es), stack {} KiB, heap cap {} MiB, watchdog {:.0} s", jsons.len(), workers, self.stack >> 10, self.cap >> 20, self.watchdog.as_secs_f64()),
            evaluations: evaluated,
            distinct_nontrivial: nt.len() as u64,
            wall_s: start.elapsed().as_secs_f64(),
            exhaustive: false,
        });
        CheckResult { stats, failure }
    }

    fn serve_worker(&self) -> bool {
        self.worker_loop();
        true
    }

    fn replay(&self, case: serde_json::Value) -> Result<Verdict, String> {
        // replay through a worker as well, so that a crash is reported instead of killing us
        let json = case.to_string();
        let prop = std::env::var("VERIF_REPLAY_PROP").unwrap_or_default();
        let r = self.run_slice(&prop, &[(0, json)], &std::sync::atomic::AtomicBool::new(false));
        match r.into_iter().next().map(|x| x.1) {
            Some(WireVerdict::Pass { .. }) => Ok(Verdict::Pass(Obs::new())),
            Some(WireVerdict::Fail(m)) => Ok(Verdict::Fail(m)),
            Some(WireVerdict::Known { sig: _, detail }) => Ok(Verdict::Fail(detail)),
            Some(WireVerdict::Harness(m)) => Ok(Verdict::Harness(m)),
            None => Err("worker returned nothing".to_string()),
        }
    }
}

fn truncate_json(s: &str) -> String {
    if s.len() <= 3000 {
        s.to_string()
    } else {
        serde_json::to_string(&format!("{}… ({} bytes)", &s[..2000], s.len())).unwrap_or_default()
    }
}

/// Registry hook used by `vcheck worker`: each isolated check is looked up by (prop, name).
pub trait WorkerEntry: Send + Sync {
    fn check_name(&self) -> &str;
    fn serve(&self);
}

impl<C: CaseT> WorkerEntry for IsoCheck<C> {
    fn check_name(&self) -> &str {
        self.name
    }
    fn serve(&self) {
        self.worker_loop()
    }
}
