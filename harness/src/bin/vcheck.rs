use std::path::Path;
use vkit::core::{install_panic_hook, replay_file, run_property, Ctx, Tier};
use vkit::props;

fn usage() -> ! {
    eprintln!("usage: vcheck <Cxx> [--tier quick|thorough] [--only <subcheck>]\n       vcheck replay <file>\n       vcheck gen-corpus <target> <dir>\n       vcheck fuzz-replay <target> <file>\n       vcheck list");
    std::process::exit(2);
}

fn main() {
    install_panic_hook();
    let args: Vec<String> = std::env::args().skip(1).collect();
    if args.is_empty() {
        usage();
    }
    match args[0].as_str() {
        "list" => {
            for s in props::all_specs() {
                let names: Vec<&str> = s.checks.iter().map(|c| c.name()).collect();
                println!("{} [{}] {}", s.id, s.level, names.join(", "));
            }
        }
        "worker" => {
            if args.len() < 3 {
                usage();
            }
            if let Some(spec) = props::spec_for(&args[1]) {
                for c in &spec.checks {
                    if c.name() == args[2] && c.serve_worker() {
                        std::process::exit(0);
                    }
                }
            }
            eprintln!("no isolated check {}/{}", args[1], args[2]);
            std::process::exit(2);
        }
        "gen-corpus" => {
            if args.len() < 3 {
                usage();
            }
            match vkit::targets::write_corpus(&args[1], Path::new(&args[2])) {
                Ok(n) => println!("{} seed inputs written to {}", n, args[2]),
                Err(e) => {
                    eprintln!("gen-corpus failed: {}", e);
                    std::process::exit(2);
                }
            }
        }
        "fuzz-replay" => {
            // vcheck fuzz-replay <target> <file>: re-runs one libFuzzer artifact through the target
            if args.len() < 3 {
                usage();
            }
            let data = match std::fs::read(&args[2]) {
                Ok(d) => d,
                Err(e) => {
                    eprintln!("cannot read {}: {}", args[2], e);
                    std::process::exit(2);
                }
            };
            let prop = vkit::targets::TARGETS.iter().find(|t| t.0 == args[1]).map(|t| t.1).unwrap_or("?");
            let name = args[1].clone();
            match vkit::core::catch(move || vkit::targets::run_target(&name, &data)) {
                Ok(true) => {
                    println!("replay {}: target {} holds on this input", args[2], args[1]);
                }
                Ok(false) => {
                    eprintln!("unknown target {}", args[1]);
                    std::process::exit(2);
                }
                Err(p) => {
                    println!("VIOLATION property={} replay={}", prop, args[2]);
                    println!("  target={} {}", args[1], vkit::core::truncate(&p, 2000));
                    std::process::exit(1);
                }
            }
        }
        "replay" => {
            if args.len() < 2 {
                usage();
            }
            if args[1].ends_with(".bin") {
                // libFuzzer artifact saved as <prop>-<target>-<hash>.bin
                let stem = Path::new(&args[1]).file_stem().and_then(|s| s.to_str()).unwrap_or("").to_string();
                let target = vkit::targets::TARGETS.iter().map(|t| t.0).filter(|t| stem.contains(&format!("-{}-", t))).max_by_key(|t| t.len());
                match target {
                    Some(t) => {
                        let exe = std::env::current_exe().expect("exe");
                        let st = std::process::Command::new(exe).arg("fuzz-replay").arg(t).arg(&args[1]).status().expect("spawn");
                        match st.code() {
                            Some(c) => std::process::exit(c),
                            None => {
                                let prop = vkit::targets::TARGETS.iter().find(|x| x.0 == t).map(|x| x.1).unwrap_or("?");
                                println!("VIOLATION property={} replay={}", prop, args[1]);
                                println!("  target={} the replay process was killed by a signal ({:?})", t, st);
                                std::process::exit(1);
                            }
                        }
                    }
                    None => {
                        eprintln!("cannot tell the fuzz target from the file name {}", args[1]);
                        std::process::exit(2);
                    }
                }
            }
            let code = replay_file(&props::all_specs(), Path::new(&args[1]));
            std::process::exit(code);
        }
        id => {
            let mut tier = None;
            let mut only: Option<String> = None;
            let mut i = 1;
            while i < args.len() {
                match args[i].as_str() {
                    "--tier" => {
                        i += 1;
                        tier = match args.get(i).map(|s| s.as_str()) {
                            Some("quick") => Some(Tier::Quick),
                            Some("thorough") => Some(Tier::Thorough),
                            _ => usage(),
                        };
                    }
                    "--only" => {
                        i += 1;
                        only = args.get(i).cloned();
                    }
                    _ => usage(),
                }
                i += 1;
            }
            let spec = match props::spec_for(id) {
                Some(s) => s,
                None => {
                    eprintln!("unknown property {}", id);
                    std::process::exit(2);
                }
            };
            let ctx = Ctx::from_env(tier);
            let out = run_property(&ctx, &spec, only.as_deref());
            std::process::exit(out.exit_code);
        }
    }
}
