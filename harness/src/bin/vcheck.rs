use std::path::Path;
use vkit::core::{install_panic_hook, replay_file, run_property, Ctx, Tier};
use vkit::props;

fn usage() -> ! {
    eprintln!("usage: vcheck <Cxx> [--tier quick|thorough] [--only <subcheck>]\n       vcheck replay <file>\n       vcheck list");
    std::process::exit(2);
}

fn main() {
    install_panic_hook();
    let args: Vec<String> = std::env::args().skip(1).collect();
    if args.is_empty() {
        usage();
    }
    match args[0].as_str() {
        "list" => {
            for s in props::all_specs() {
                let names: Vec<&str> = s.checks.iter().map(|c| c.name()).collect();
                println!("{} [{}] {}", s.id, s.level, names.join(", "));
            }
        }
        "worker" => {
            if args.len() < 3 {
                usage();
            }
            if let Some(spec) = props::spec_for(&args[1]) {
                for c in &spec.checks {
                    if c.name() == args[2] && c.serve_worker() {
                        std::process::exit(0);
                    }
                }
            }
            eprintln!("no isolated check {}/{}", args[1], args[2]);
            std::process::exit(2);
        }
        "replay" => {
            if args.len() < 2 {
                usage();
            }
            let code = replay_file(&props::all_specs(), Path::new(&args[1]));
            std::process::exit(code);
        }
        id => {
            let mut tier = None;
            let mut only: Option<String> = None;
            let mut i = 1;
            while i < args.len() {
                match args[i].as_str() {
                    "--tier" => {
                        i += 1;
                        tier = match args.get(i).map(|s| s.as_str()) {
                            Some("quick") => Some(Tier::Quick),
                            Some("thorough") => Some(Tier::Thorough),
                            _ => usage(),
                        };
                    }
                    "--only" => {
                        i += 1;
                        only = args.get(i).cloned();
                    }
                    _ => usage(),
                }
                i += 1;
            }
            let spec = match props::spec_for(id) {
                Some(s) => s,
                None => {
                    eprintln!("unknown property {}", id);
                    std::process::exit(2);
                }
            };
            let ctx = Ctx::from_env(tier);
            let out = run_property(&ctx, &spec, only.as_deref());
            std::process::exit(out.exit_code);
        }
    }
}
