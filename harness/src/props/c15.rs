//! C15 — results do not depend on how the input byte stream is split across calls.
//! Oracle: metamorphic relation between runs of the same stream under different partitions.

use crate::core::*;
use crate::drive::*;
use crate::gen::{self, Partition, SeqCfg};
use crate::refs::chunk::Msg;
use proptest::prelude::*;
use serde::{Deserialize, Serialize};

#[derive(Clone, Debug, Serialize, Deserialize)]
pub enum Mutation {
    /// xor the byte at the position (fraction of the length)
    Flip(u16, u8),
    /// overwrite the byte at the position
    Set(u16, u8),
    /// cut the stream at the position
    Truncate(u16),
    /// duplicate `len` bytes starting at the position
    Duplicate(u16, u8),
    /// delete `len` bytes starting at the position
    Delete(u16, u8),
    /// overwrite 3 bytes (a 24-bit header field) with a boundary value
    Field24(u16, u32),
}

#[derive(Clone, Debug, Serialize, Deserialize)]
pub enum Source {
    Library(Seq),
    Foreign(Vec<FOp>),
    /// arbitrary bytes
    Raw(Vec<u8>),
    /// `n` copies of one small message (reference-encoded on chunk stream 3, maximally compressed),
    /// then `tail`: thousands of complete messages inside one read
    Flood { type_id: u8, msid: u32, payload: Vec<u8>, n: u32, tail: Vec<FOp> },
    /// `n` messages of `len` patterned bytes each (reference-encoded, 128-byte chunks): streams of
    /// more than 16 MiB in all, so that ONE read can hold more than any single message may
    Bulk { type_id: u8, len: u32, n: u32 },
}

#[derive(Clone, Debug, Serialize, Deserialize)]
pub struct Case {
    pub source: Source,
    pub mutations: Vec<Mutation>,
    pub c: Partition,
    pub d: Partition,
}

pub fn mutate(stream: &mut Vec<u8>, muts: &[Mutation]) {
    for m in muts {
        if stream.is_empty() {
            return;
        }
        let at = |f: u16, n: usize| ((f as usize) * n) >> 16;
        match m {
            Mutation::Flip(p, x) => {
                let i = at(*p, stream.len());
                stream[i] ^= *x | 1;
            }
            Mutation::Set(p, v) => {
                let i = at(*p, stream.len());
                stream[i] = *v;
            }
            Mutation::Truncate(p) => {
                let i = at(*p, stream.len() + 1);
                stream.truncate(i);
            }
            Mutation::Duplicate(p, l) => {
                let i = at(*p, stream.len());
                let e = (i + *l as usize).min(stream.len());
                let seg: Vec<u8> = stream[i..e].to_vec();
                for (k, b) in seg.into_iter().enumerate() {
                    stream.insert(e + k, b);
                }
            }
            Mutation::Delete(p, l) => {
                let i = at(*p, stream.len());
                let e = (i + *l as usize).min(stream.len());
                stream.drain(i..e);
            }
            Mutation::Field24(p, v) => {
                let i = at(*p, stream.len());
                for k in 0..3 {
                    if i + k < stream.len() {
                        stream[i + k] = (v >> (16 - 8 * k)) as u8;
                    }
                }
            }
        }
    }
}

pub fn mutation() -> BoxedStrategy<Mutation> {
    prop_oneof![
        3 => (any::<u16>(), any::<u8>()).prop_map(|(p, x)| Mutation::Flip(p, x)),
        2 => (any::<u16>(), prop_oneof![gen::pick(&[0u8, 1, 2, 3, 0x3F, 0x40, 0x43, 0x80, 0x83, 0xC0, 0xC3, 0xFF]), any::<u8>()]).prop_map(|(p, v)| Mutation::Set(p, v)),
        2 => any::<u16>().prop_map(Mutation::Truncate),
        1 => (any::<u16>(), 1u8..40).prop_map(|(p, l)| Mutation::Duplicate(p, l)),
        1 => (any::<u16>(), 1u8..40).prop_map(|(p, l)| Mutation::Delete(p, l)),
        2 => (any::<u16>(), gen::pick(&[0u32, 1, 0xFF_FFFF, 0xFF_FFFE, 0x00_0080, 0x00_0100, 0x01_0000])).prop_map(|(p, v)| Mutation::Field24(p, v)),
    ]
    .boxed()
}

fn error_kind(e: &str) -> String {
    e.split(|c: char| c == ' ' || c == '{' || c == '(').next().unwrap_or("").to_string()
}

pub fn build_stream(case_source: &Source) -> Vec<u8> {
    match case_source {
        Source::Library(seq) => match run_serializer(seq) {
            Ok(s) => s.packets.iter().flat_map(|p| p.0.iter().copied()).collect(),
            Err(_) => Vec::new(),
        },
        Source::Foreign(ops) => encode_foreign(ops).stream,
        Source::Raw(b) => b.clone(),
        Source::Bulk { type_id, len, n } => {
            let mut enc = crate::refs::chunk::RefChunkEnc::new();
            let mut out = Vec::with_capacity((*len as usize + *len as usize / 100 + 32) * *n as usize);
            for i in 0..*n {
                let payload: Vec<u8> = (0..*len).map(|j| (i.wrapping_mul(31).wrapping_add(j.wrapping_mul(7)) >> 1) as u8).collect();
                let msg = Msg { ts: i.wrapping_mul(40), type_id: *type_id, msid: 1, payload };
                let e = enc.encode(&msg, &crate::refs::chunk::EncOpts { csid: 6, want_fmt: 3, three_byte: false, fmt0_continuation: false });
                for c in &e.chunks {
                    out.extend_from_slice(c);
                }
            }
            out
        }
        Source::Flood { type_id, msid, payload, n, tail } => {
            let mut enc = crate::refs::chunk::RefChunkEnc::new();
            let mut out = Vec::new();
            for i in 0..*n {
                let msg = Msg { ts: i.wrapping_mul(20), type_id: *type_id, msid: *msid, payload: payload.clone() };
                let e = enc.encode(&msg, &crate::refs::chunk::EncOpts { csid: 3, want_fmt: 3, three_byte: false, fmt0_continuation: false });
                for c in &e.chunks {
                    out.extend_from_slice(c);
                }
            }
            let mut ts_by = std::collections::HashMap::new();
            ts_by.insert(3u32, n.wrapping_sub(1).wrapping_mul(20));
            let mut fo = ForeignOut { stream: Vec::new(), expected: Vec::new(), fmts: Vec::new(), non_minimal_csid: false };
            encode_foreign_into(&mut enc, &mut ts_by, tail, &mut fo);
            out.extend(fo.stream);
            out
        }
    }
}

/// Floods: an acknowledgement, a ping request, a window size, one audio byte, an unknown type, an
/// empty message - more than 1024 / 2048 / 4096 of them.
fn flood_source() -> BoxedStrategy<Source> {
    (
        (0usize..7).prop_map(|k| -> (u8, u32, Vec<u8>) {
            match k {
                0 => (3, 0, vec![0, 0, 0, 9]),
                1 => (4, 0, vec![0, 6, 0, 0, 0, 1]),
                2 => (5, 0, vec![0, 16, 0, 0]),
                3 => (8, 1, vec![0xAF]),
                4 => (9, 1, vec![]),
                5 => (22, 1, vec![1, 2, 3]),
                _ => (2, 0, vec![0, 0, 0, 9]),
            }
        }),
        gen::pick(&[1000u32, 1023, 1024, 1025, 2047, 2049, 3000, 4097, 6000]),
        gen::foreign_ops(4, 0, 300),
    )
        .prop_map(|((type_id, msid, payload), n, tail)| Source::Flood { type_id, msid, payload, n, tail })
        .boxed()
}

pub fn eval(case: &Case) -> Verdict {
    let mut stream = build_stream(&case.source);
    mutate(&mut stream, &case.mutations);
    let parts = [&Partition::Whole, &Partition::ByteByByte, &case.c, &case.d];
    let mut results: Vec<(Vec<Msg>, Option<String>)> = Vec::new();
    for p in parts.iter() {
        results.push(lib_decode(&stream, p));
    }
    let (base_msgs, base_err) = (&results[0].0, &results[0].1);
    for (i, (msgs, err)) in results.iter().enumerate().skip(1) {
        if let Some(d) = first_difference(msgs, base_msgs) {
            vfail!("partition {:?} and one-call delivery disagree on the messages of a {}-byte stream: {}", parts[i], stream.len(), d);
        }
        match (err, base_err) {
            (None, None) => {}
            (Some(a), Some(b)) => {
                vensure!(error_kind(a) == error_kind(b), "partition {:?} fails with {} but one-call delivery fails with {}", parts[i], a, b);
            }
            (a, b) => vfail!("partition {:?} ends with {:?} but one-call delivery ends with {:?} (after {} messages)", parts[i], a, b, base_msgs.len()),
        }
    }
    let mut obs = Obs::new();
    obs.class_if(base_err.is_some(), "stream-invalid (all partitions error identically)");
    obs.class_if(base_err.is_none() && !case.mutations.is_empty(), "mutated-but-accepted");
    obs.class_if(case.mutations.is_empty(), "valid-stream");
    obs.class(match case.source {
        Source::Library(_) => "source-library-serializer",
        Source::Foreign(_) => "source-foreign-encoder",
        Source::Raw(_) => "source-raw-bytes",
        Source::Flood { .. } => "source-flood-of-small-messages",
        Source::Bulk { .. } => "source-bulk",
    });
    let mut header_cut_differs = false;
    if case.mutations.is_empty() {
        if let Ok((_, map)) = ref_decode(false, &stream) {
            let a = classify_cuts(&map, &case.c.ends(stream.len()), &mut Obs::new());
            let b = classify_cuts(&map, &case.d.ends(stream.len()), &mut Obs::new());
            classify_cuts(&map, &case.c.ends(stream.len()), &mut obs);
            header_cut_differs = a != b || a;
        }
    } else {
        header_cut_differs = stream.len() > 12;
    }
    obs.count("messages-delivered", base_msgs.len() as u64);
    obs.nontrivial = base_msgs.len() >= 2 && header_cut_differs;
    Verdict::Pass(obs)
}

/// One read that holds more than 16 MiB of valid stream (more than any single message may hold)
/// against the same stream in 65535-byte reads and under a generated partition.
fn bulk_source() -> BoxedStrategy<Source> {
    (gen::pick(&[9u8, 8, 18, 22]), gen::pick(&[450_000u32, 1_000_000, 65_536, 4_000_000, 16_777_215, 100_000]), gen::pick(&[12u32, 16, 17, 18, 24, 33, 40]))
        .prop_map(|(type_id, len, mib)| Source::Bulk { type_id, len, n: ((mib << 20) + len - 1) / len + 1 })
        .boxed()
}

fn eval_bulk(case: &Case) -> Verdict {
    let stream = build_stream(&case.source);
    let (base_msgs, base_err) = lib_decode(&stream, &Partition::Whole);
    let expected = match case.source { Source::Bulk { n, .. } => n as usize, _ => 0 };
    vensure!(base_err.is_none() && base_msgs.len() == expected, "one-call delivery of a valid {}-byte stream of {} messages ends with {:?} after {} messages", stream.len(), expected, base_err, base_msgs.len());
    let every = Partition::Every(65535);
    for p in [&every, &case.c] {
        let (msgs, err) = lib_decode(&stream, p);
        if let Some(d) = first_difference(&msgs, &base_msgs) {
            vfail!("partition {:?} and one-call delivery disagree on the messages of a {}-byte stream: {}", p, stream.len(), d);
        }
        vensure!(err.is_none(), "partition {:?} ends with {:?} but one-call delivery succeeds", p, err);
    }
    let mut obs = Obs::new();
    obs.class(if stream.len() > (16 << 20) + 18 { "one-read-above-16MiB" } else { "one-read-below-16MiB" });
    obs.count("messages-delivered", base_msgs.len() as u64);
    obs.nontrivial = stream.len() > (16 << 20) + 18;
    Verdict::Pass(obs)
}

/// Every two-piece cut of a short valid stream (a coincidence between a read boundary and some
/// internal length can sit at exactly one offset).
fn eval_every_cut(case: &Case) -> Verdict {
    let stream = build_stream(&case.source);
    let mut obs = Obs::new();
    if stream.len() > 900 {
        obs.class("stream-too-long-for-every-cut");
        return Verdict::Pass(obs);
    }
    let (base_msgs, base_err) = lib_decode(&stream, &Partition::Whole);
    for k in 1..stream.len() {
        let (msgs, err) = lib_decode(&stream, &Partition::At(vec![k as u32]));
        if let Some(d) = first_difference(&msgs, &base_msgs) {
            vfail!("cutting the {}-byte stream after byte {} changes the messages: {}", stream.len(), k, d);
        }
        vensure!(err.is_some() == base_err.is_some(), "cutting the {}-byte stream after byte {} ends with {:?}, one-call delivery with {:?}", stream.len(), k, err, base_err);
    }
    obs.count("cuts-tried", stream.len().saturating_sub(1) as u64);
    obs.class_if(base_msgs.iter().any(|m| m.payload.len() > 128), "multi-chunk-message");
    obs.nontrivial = base_msgs.len() >= 2 && stream.len() >= 40;
    Verdict::Pass(obs)
}

fn source() -> BoxedStrategy<Source> {
    prop_oneof![
        4 => gen::msg_seq(SeqCfg { max_ops: 10, len_cap: 1500, ..SeqCfg::DEFAULT }).prop_map(Source::Library),
        4 => gen::foreign_ops(10, 8, 1500).prop_map(Source::Foreign),
        1 => proptest::collection::vec(any::<u8>(), 0..300).prop_map(Source::Raw),
    ]
    .boxed()
}

pub fn deser_case(mutated: bool) -> BoxedStrategy<Case> {
    let muts = if mutated { proptest::collection::vec(mutation(), 1..4).boxed() } else { Just(Vec::new()).boxed() };
    (source(), muts, gen::partition(), gen::partition())
        .prop_map(|(source, mutations, c, d)| Case { source, mutations, c, d })
        .boxed()
}

// ------------------------------------------------------------------------------------------------
// sessions

use crate::props::c03::{self, FItem, Input, Sess, Target};
use crate::refs::msg::RM;
use crate::sess::*;

#[derive(Clone, Debug, Serialize, Deserialize)]
pub struct SessCase {
    pub target: Target,
    pub input: Input,
    pub c: Partition,
    pub d: Partition,
}

struct CallRes {
    start: usize,
    end: usize,
    /// None = the call returned Err
    res: Option<Vec<String>>,
}

fn norm_out(outdec: &mut OutDec, bytes: &[u8], droppable: bool, out: &mut Vec<String>) -> Result<(), String> {
    for m in outdec.packet(bytes, droppable)? {
        let body = match &m.rm {
            Ok(RM::Ack(_)) => continue, // a function of the call boundaries by definition (C17)
            Ok(RM::Command(n, t, ob, a)) => format!("cmd {} {:#x} {:?} {:?}", n.build(), t, crate::refs::amf0::from_lib(&crate::refs::amf0::to_lib(ob)), a.iter().map(|x| crate::refs::amf0::from_lib(&crate::refs::amf0::to_lib(x))).collect::<Vec<_>>()),
            Ok(RM::Data(vs)) => format!("data {:?}", vs.iter().map(|x| crate::refs::amf0::from_lib(&crate::refs::amf0::to_lib(x))).collect::<Vec<_>>()),
            Ok(other) => format!("{:?}", other),
            Err(e) => format!("unparsable {}", e),
        };
        out.push(format!("O:t{} s{} d{} {}", m.dec.msg.type_id, m.dec.msg.msid, droppable, body));
    }
    Ok(())
}

fn run_session(target: &Target, stream: &[u8], partition: &Partition) -> Result<Vec<CallRes>, String> {
    let (mut sess, _enc, prep_packets) = c03::prepare_recording(target)?;
    // the observer must see every packet from the constructor on (header compression)
    let mut outdec = OutDec::new();
    for (b, d) in &prep_packets {
        outdec.packet(b, *d).map_err(|e| format!("preparation output undecodable: {}", e))?;
    }
    let mut calls = Vec::new();
    let mut pos = 0usize;
    for piece in partition.pieces(stream) {
        let start = pos;
        pos += piece.len();
        let mut res: Vec<String> = Vec::new();
        let r: Result<(), ()> = match &mut sess {
            Sess::S(s) => match s.handle_input(piece) {
                Ok(results) => {
                    for x in results {
                        match x {
                            ServerSessionResult::OutboundResponse(p) => {
                                if let Err(e) = norm_out(&mut outdec, &p.bytes, p.can_be_dropped, &mut res) {
                                    return Err(format!("UNDECODABLE {}", e));
                                }
                            }
                            ServerSessionResult::RaisedEvent(e) => res.push(format!("E:{}", fmt_server_event(&e))),
                            ServerSessionResult::UnhandleableMessageReceived(m) => res.push(format!("U:{} {} {}", m.type_id, m.message_stream_id, m.data.len())),
                        }
                    }
                    Ok(())
                }
                Err(_) => Err(()),
            },
            Sess::C(s) => match s.handle_input(piece) {
                Ok(results) => {
                    for x in results {
                        match x {
                            ClientSessionResult::OutboundResponse(p) => {
                                if let Err(e) = norm_out(&mut outdec, &p.bytes, p.can_be_dropped, &mut res) {
                                    return Err(format!("UNDECODABLE {}", e));
                                }
                            }
                            ClientSessionResult::RaisedEvent(e) => res.push(format!("E:{}", fmt_client_event(&e))),
                            ClientSessionResult::UnhandleableMessageReceived(m) => res.push(format!("U:{} {} {}", m.type_id, m.message_stream_id, m.data.len())),
                        }
                    }
                    Ok(())
                }
                Err(_) => Err(()),
            },
        };
        let failed = r.is_err();
        calls.push(CallRes { start, end: pos, res: if failed { None } else { Some(res) } });
        if failed {
            break; // an Err from handle_input is terminal
        }
    }
    Ok(calls)
}

use rml_rtmp::sessions::{ClientSessionResult, ServerSessionResult};

pub fn eval_session(case: &SessCase) -> Verdict {
    let stream = c03::flat_bytes(&case.input);
    let base = match run_session(&case.target, &stream, &Partition::ByteByByte) {
        Ok(b) => b,
        Err(e) if e.starts_with("UNDECODABLE") => return Verdict::Fail(format!("byte-by-byte run: session output cannot be decoded: {}", e)),
        Err(e) => return Verdict::Harness(format!("preparation failed: {}", e)),
    };
    // byte-by-byte reference: results tagged with the offset of the byte that produced them
    let err_at: Option<usize> = base.iter().find(|c| c.res.is_none()).map(|c| c.start);
    let mut total_results = 0usize;
    for p in [&Partition::Whole, &case.c, &case.d] {
        let run = match run_session(&case.target, &stream, p) {
            Ok(r) => r,
            Err(e) if e.starts_with("UNDECODABLE") => return Verdict::Fail(format!("partition {:?}: session output cannot be decoded: {}", p, e)),
            Err(e) => return Verdict::Harness(format!("preparation failed: {}", e)),
        };
        for call in &run {
            match (&call.res, err_at) {
                (None, None) => vfail!("partition {:?}: the call delivering bytes {}..{} fails, byte-by-byte delivery of the same {} bytes never fails", p, call.start, call.end, stream.len()),
                (None, Some(e)) => {
                    vensure!(call.start <= e && e < call.end, "partition {:?}: the call delivering bytes {}..{} fails, but byte-by-byte delivery fails at byte {}", p, call.start, call.end, e);
                }
                (Some(res), e) => {
                    if let Some(e) = e {
                        vensure!(call.end <= e, "partition {:?}: the call delivering bytes {}..{} succeeds although byte-by-byte delivery fails at byte {}", p, call.start, call.end, e);
                    }
                    // byte-by-byte: call i delivers byte i, so the reference calls of this range are a slice
                    let hi = call.end.min(base.len());
                    let lo = call.start.min(hi);
                    let want: Vec<&String> = base[lo..hi].iter().filter_map(|b| b.res.as_ref()).flatten().collect();
                    let same = want.len() == res.len() && want.iter().zip(res.iter()).all(|(a, b)| *a == b);
                    if !same {
                        let first = want.iter().zip(res.iter()).position(|(a, b)| *a != b).unwrap_or(want.len().min(res.len()));
                        vfail!("partition {:?}: the call delivering bytes {}..{} returned {} results, byte-by-byte delivery of the same range returned {}; first difference at result {}: {:?} vs {:?}", p, call.start, call.end, res.len(), want.len(), first, res.get(first).map(|s| truncate(s, 300)), want.get(first).map(|s| truncate(s, 300)));
                    }
                    total_results += res.len();
                }
            }
        }
        // a run that ended without error must have consumed everything the reference consumed
        if err_at.is_none() {
            vensure!(run.iter().all(|c| c.res.is_some()), "partition {:?} fails, byte-by-byte does not", p);
        } else {
            vensure!(run.iter().any(|c| c.res.is_none()), "partition {:?}: no call fails, byte-by-byte delivery fails at byte {:?}", p, err_at);
        }
    }
    let mut obs = Obs::new();
    obs.class(match &case.target {
        Target::Server(0) => "server-fresh",
        Target::Server(1) => "server-connected",
        Target::Server(2) => "server-publishing",
        Target::Server(_) => "server-playing",
        Target::Client(0) => "client-fresh",
        Target::Client(1) => "client-connected",
        Target::Client(2) => "client-publishing",
        _ => "client-playing",
    });
    obs.class_if(err_at.is_some(), "stream-invalid (all partitions fail in the call containing the same byte)");
    obs.class_if(err_at.is_none(), "stream-accepted");
    obs.count("results-compared", total_results as u64);
    obs.nontrivial = total_results >= 2 && stream.len() > 24;
    Verdict::Pass(obs)
}

fn session_case() -> BoxedStrategy<SessCase> {
    let target = prop_oneof![(0u8..4).prop_map(Target::Server), (0u8..4).prop_map(Target::Client)];
    let framed = proptest::collection::vec((c03::fitem().prop_filter("no application calls inside the stream", |i| !matches!(i, FItem::App(_))), Just(0u16)), 1..12).prop_map(Input::Framed);
    let input = prop_oneof![
        8 => framed,
        2 => proptest::collection::vec(c03::hchunk(), 1..10).prop_map(Input::Headers),
        2 => deser_case(true).prop_map(|c| Input::Mutated { source: c.source, mutations: c.mutations }),
        1 => proptest::collection::vec(any::<u8>(), 0..300).prop_map(Input::Raw),
    ];
    (target, input, gen::partition(), gen::partition()).prop_map(|(target, input, c, d)| SessCase { target, input, c, d }).boxed()
}

pub fn spec() -> PropSpec {
    PropSpec {
        id: "C15",
        level: "exploration",
        rule: "byte streams: library-serialized sequences, RefChunkEnc foreign streams, raw bytes, and mutants of them (byte flips, overwritten bytes from a header-byte pool, 24-bit header fields replaced by boundary values, truncations, duplicated / deleted ranges); sub-check 'deserializer-kilobyte-chunks' uses chunk sizes 4095..65536 and messages up to 70000 bytes; sub-check 'deserializer-every-two-piece-cut' tries EVERY cut position of short valid streams; sub-check 'deserializer-one-read-above-16MiB' hands 12..40 MiB of valid stream (messages of 64 KiB..16 MiB-1) over in ONE call and compares with 65535-byte reads and a generated partition; sub-checks '…-flood' deliver 1000..6000 copies of one small message (acknowledgement, ping, window size, one audio byte, empty video, unknown type, abort) plus a short tail; each stream is run under four partitions (one call, byte by byte, two generated ones, optionally with empty polls) through fresh deserializers (and, in the session sub-checks, fresh sessions with the same preparatory history); message sequences, error position and error variant must be identical. Non-trivial = >= 2 messages delivered and a cut strictly inside a chunk header in one generated partition; distinct = distinct case",
        assumptions: vec![
            "error position is judged at the granularity the API has: messages returned before the error, and the error variant",
            "sessions: handle_input returns Result<Vec<_>, _>, so results gathered earlier in the failing call are necessarily discarded; asserted: the failing call is the one containing the byte at which byte-by-byte delivery fails, and every earlier call returns exactly the byte-by-byte results of its byte range",
            "sessions: Acknowledgements and session-generated timestamps are masked (functions of call boundaries / of the clock by definition, see C17); an Err from handle_input is terminal",
        ],
        checks: vec![
            PropCheck::new("deserializer-valid", |_| deser_case(false), 40_000, 1_000_000, eval),
            PropCheck::new("deserializer-mutated", |_| deser_case(true), 50_000, 1_500_000, eval),
            PropCheck::new("deserializer-kilobyte-chunks", |_| {
                let src = prop_oneof![gen::msg_seq_large(5).prop_map(Source::Library), gen::foreign_ops_large(5).prop_map(Source::Foreign)];
                (src, prop_oneof![3 => Just(Vec::new()), 1 => proptest::collection::vec(mutation(), 1..3)], gen::partition_large(), gen::partition_large()).prop_map(|(source, mutations, c, d)| Case { source, mutations, c, d }).boxed()
            }, 3_000, 100_000, eval),
            PropCheck::new("deserializer-every-two-piece-cut", |_| prop_oneof![gen::msg_seq(SeqCfg { max_ops: 5, len_cap: 300, ..SeqCfg::DEFAULT }).prop_map(Source::Library), gen::foreign_ops(5, 8, 300).prop_map(Source::Foreign)].prop_map(|source| Case { source, mutations: vec![], c: Partition::Whole, d: Partition::Whole }).boxed(), 4_000, 100_000, eval_every_cut),
            PropCheck::new("sessions", |_| session_case(), 15_000, 500_000, eval_session),
            PropCheck::new("deserializer-flood", |_| (flood_source(), gen::partition_large(), gen::partition()).prop_map(|(source, c, d)| Case { source, mutations: vec![], c, d }).boxed(), 60, 2_000, eval),
            PropCheck::new("sessions-flood", |_| (prop_oneof![(0u8..4).prop_map(Target::Server), (0u8..4).prop_map(Target::Client)], flood_source(), gen::partition_large(), gen::partition()).prop_map(|(target, source, c, d)| SessCase { target, input: Input::Mutated { source, mutations: vec![] }, c, d }).boxed(), 120, 4_000, eval_session),
            PropCheck::new("deserializer-one-read-above-16MiB", |_| (bulk_source(), gen::partition_large()).prop_map(|(source, c)| Case { source, mutations: vec![], c, d: Partition::Whole }).boxed(), 16, 160, eval_bulk),
            crate::targets::corpus_check(&["split"]),
        ],
    }
}
