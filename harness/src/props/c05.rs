//! C05 — the handshake completes under any fragmentation and hands back trailing bytes intact.
//! Oracle: invariants over the exchange history (emitted byte counts, completion not before 3073
//! peer bytes, trailing data returned once and unmodified), against the library's own peer and
//! against a digest-less "original handshake" peer written in the harness.

use crate::core::*;
use crate::gen::{self, fill_bytes, Partition};
use crate::props::c11::{peer_type, FillGuard};
use crate::refs::sha::{self, Role, PACKET};
use proptest::prelude::*;
use rml_rtmp::handshake::{Handshake, HandshakeProcessResult};
use serde::{Deserialize, Serialize};

const TOTAL: usize = 1 + 2 * PACKET;

#[derive(Clone, Debug, Serialize, Deserialize)]
pub struct Case {
    /// which sides call generate_outbound_p0_and_p1 before receiving anything (the client must
    /// when nobody else starts, otherwise nothing would ever be sent)
    pub client_generates: bool,
    pub server_generates: bool,
    pub c2s: Partition,
    pub s2c: Partition,
    /// delivery order: true = deliver the next client->server piece, false = server->client
    pub schedule: Vec<bool>,
    pub trailing_c: u32,
    pub trailing_s: u32,
    pub fill: u64,
    /// None = both sides are the library; Some(role) = that role is played by the harness's
    /// original-handshake (digest-less) peer
    pub original_peer: Option<Role>,
}

/// One side of the exchange.
enum Side {
    Lib { h: Handshake, done: bool, remaining: Vec<u8>, received_at_completion: usize },
    /// digest-less peer following the original RTMP specification
    Original { role: Role, p1: Vec<u8>, inbuf: Vec<u8>, sent_p2: bool, done: bool, started: bool, /// Some(t): packet 2 carries the time the peer's packet 1 was read in bytes 4..8 (section 5.2.4) instead of being a byte-exact echo
        time2: Option<u32>,
        /// the peer sends the packet 1 it RECEIVED as its own packet 1 (any content is allowed there;
        /// simple servers do this): it can only start once it has the library's packet 1
        mirror: bool },
}

struct End {
    side: Side,
    /// everything this side has put on the wire so far (handshake bytes + trailing data)
    produced: Vec<u8>,
    /// how many bytes of the peer's stream have been passed in
    received: usize,
    handshake_emitted: usize,
    trailing: Vec<u8>,
    trailing_appended: bool,
}

impl End {
    fn emit(&mut self, bytes: Vec<u8>) {
        self.handshake_emitted += bytes.len();
        self.produced.extend(bytes);
        if self.handshake_emitted >= TOTAL && !self.trailing_appended {
            self.trailing_appended = true;
            let t = self.trailing.clone();
            self.produced.extend(t);
        }
    }

    fn is_done(&self) -> bool {
        match &self.side {
            Side::Lib { done, .. } => *done,
            Side::Original { done, .. } => *done,
        }
    }

    /// passes bytes in; Err = violation text
    fn receive(&mut self, bytes: &[u8], who: &str) -> Result<(), String> {
        self.received += bytes.len();
        let received = self.received;
        let mut out: Vec<u8> = Vec::new();
        match &mut self.side {
            Side::Lib { h, done, remaining, received_at_completion } => {
                if *done {
                    return Err(format!("HARNESS: delivered to {} after completion", who));
                }
                match h.process_bytes(bytes) {
                    Ok(HandshakeProcessResult::InProgress { response_bytes }) => out = response_bytes,
                    Ok(HandshakeProcessResult::Completed { response_bytes, remaining_bytes }) => {
                        out = response_bytes;
                        if received < TOTAL {
                            return Err(format!("{} reported completion after only {} peer bytes (3073 are needed)", who, received));
                        }
                        *done = true;
                        *remaining = remaining_bytes;
                        *received_at_completion = received;
                    }
                    Err(e) => return Err(format!("{} process_bytes returned an error: {:?}", who, e)),
                }
            }
            Side::Original { role: _, p1, inbuf, sent_p2, done, started, time2, mirror } => {
                inbuf.extend_from_slice(bytes);
                if !*started && (!*mirror || inbuf.len() >= 1 + PACKET) {
                    if *mirror {
                        *p1 = inbuf[1..1 + PACKET].to_vec();
                    }
                    *started = true;
                    out.push(3);
                    out.extend_from_slice(p1);
                }
                if !*sent_p2 && inbuf.len() >= 1 + PACKET {
                    if inbuf[0] != 3 {
                        return Err(format!("{}'s peer sent version byte {}", who, inbuf[0]));
                    }
                    // packet 2 = echo of the peer's packet 1
                    let mut echo = inbuf[1..1 + PACKET].to_vec();
                    if let Some(t) = time2 {
                        echo[4..8].copy_from_slice(&t.to_be_bytes());
                    }
                    out.extend_from_slice(&echo);
                    *sent_p2 = true;
                }
                if !*done && inbuf.len() >= TOTAL {
                    // the peer's packet 2 must echo our packet 1 (original handshake rule)
                    if inbuf[1 + PACKET..TOTAL] != p1[..] {
                        return Err("the library's packet 2 in answer to a digest-less packet 1 is not an exact echo of it".to_string());
                    }
                    *done = true;
                }
            }
        }
        if !out.is_empty() {
            self.emit(out);
        }
        Ok(())
    }
}

pub fn eval(c: &Case) -> Verdict {
    if let Err(e) = sha::self_test() {
        return Verdict::Harness(e);
    }
    let fill = c.fill;
    let mut calls = 0u64;
    let _g = FillGuard::install(Box::new(move |buf: &mut [u8]| {
        calls += 1;
        sha::prng_fill(fill.wrapping_add(calls.wrapping_mul(0x1000193)), buf);
    }));
    // in half of the cases an earlier connection on this thread died in the middle of its
    // handshake (its object is dropped holding unparsed bytes): nothing of it may reach this one
    if (fill >> 15) & 1 == 1 {
        for role in [Role::Server, Role::Client] {
            let mut dead = Handshake::new(peer_type(role));
            let mut junk = vec![3u8];
            junk.extend(fill_bytes(fill as u32 ^ 0xDEAD, 500 + (fill as usize >> 16) % 2000));
            let _ = dead.process_bytes(&junk);
            drop(dead);
        }
    }
    let mk = |role: Role, trailing: u32| -> End {
        let side = if c.original_peer == Some(role) {
            let mut p1 = vec![0u8; PACKET];
            sha::prng_fill(fill ^ 0x5EED ^ (role as u64), &mut p1);
            // bytes 4..8: all zero as RTMP 1.0 section 5.2.3 words it, or - as digest-less peers in the
            // field do (the library's own comment names YouTube's ingest) - something else
            if (fill >> 8) & 3 != 0 {
                for b in &mut p1[4..8] {
                    *b = 0;
                }
            } else if p1[4..8] == [0, 0, 0, 0] {
                p1[5] = 1;
            }
            Side::Original { role, p1, inbuf: Vec::new(), sent_p2: false, done: false, started: false, time2: if (fill >> 10) & 1 == 1 { Some((fill >> 11) as u32) } else { None }, mirror: (fill >> 13) & 3 == 3 && !(if role == Role::Client { c.client_generates || !c.server_generates } else { c.server_generates }) }
        } else {
            Side::Lib { h: Handshake::new(peer_type(role)), done: false, remaining: Vec::new(), received_at_completion: 0 }
        };
        End {
            side,
            produced: Vec::new(),
            received: 0,
            handshake_emitted: 0,
            trailing: fill_bytes(fill as u32 ^ role as u32, trailing as usize),
            trailing_appended: false,
        }
    };
    let mut client = mk(Role::Client, c.trailing_c);
    let mut server = mk(Role::Server, c.trailing_s);
    // who starts
    let start = |e: &mut End, generate: bool, must: bool| -> Result<(), String> {
        match &mut e.side {
            Side::Lib { h, .. } => {
                if generate || must {
                    // both documented ways to start: the explicit call, or process_bytes with nothing
                    // received yet ("the first call includes packets 0 and 1")
                    let b = if (fill >> 12) & 1 == 1 {
                        match h.process_bytes(&[]) {
                            Ok(HandshakeProcessResult::InProgress { response_bytes }) => response_bytes,
                            Ok(HandshakeProcessResult::Completed { .. }) => return Err("process_bytes(&[]) on a fresh handshake reported completion".to_string()),
                            Err(x) => return Err(format!("process_bytes(&[]) on a fresh handshake failed: {:?}", x)),
                        }
                    } else {
                        h.generate_outbound_p0_and_p1().map_err(|x| format!("generate_outbound_p0_and_p1 failed: {:?}", x))?
                    };
                    if b.len() != 1 + PACKET {
                        return Err(format!("the side that starts emitted {} bytes instead of packet 0 and packet 1 (1537 bytes)", b.len()));
                    }
                    e.emit(b);
                }
            }
            Side::Original { p1, started, .. } => {
                if generate || must {
                    *started = true;
                    let mut b = vec![3u8];
                    b.extend_from_slice(p1);
                    e.emit(b);
                }
            }
        }
        Ok(())
    };
    // the client always starts when the server does not (otherwise nothing is ever sent)
    if let Err(e) = start(&mut client, c.client_generates, !c.server_generates) {
        return Verdict::Fail(e);
    }
    if let Err(e) = start(&mut server, c.server_generates, false) {
        return Verdict::Fail(e);
    }
    let c2s_ends = c.c2s.ends(TOTAL + c.trailing_c as usize);
    let s2c_ends = c.s2c.ends(TOTAL + c.trailing_s as usize);
    let (mut ci, mut si) = (0usize, 0usize); // next piece index per direction
    let mut sched = c.schedule.iter();
    let mut cut_inside_packet = false;
    let mut steps = 0;
    loop {
        steps += 1;
        if steps > 100_000 {
            return Verdict::Harness("exchange does not terminate".to_string());
        }
        // candidates: direction can move when the receiver is not done and bytes are available
        let c2s_avail = !server.is_done() && client.produced.len() > server.received;
        let s2c_avail = !client.is_done() && server.produced.len() > client.received;
        if !c2s_avail && !s2c_avail {
            break;
        }
        let want_c2s = sched.next().copied().unwrap_or(steps % 2 == 0);
        let dir_c2s = if want_c2s { c2s_avail } else { !s2c_avail };
        let (from, to, ends, idx, who) = if dir_c2s {
            (&mut client, &mut server, &c2s_ends, &mut ci, "server")
        } else {
            (&mut server, &mut client, &s2c_ends, &mut si, "client")
        };
        // deliver up to the next partition boundary, or what has been produced so far
        while *idx < ends.len() && ends[*idx] <= to.received {
            *idx += 1;
        }
        let boundary = if *idx < ends.len() { ends[*idx] } else { from.produced.len() };
        let upto = boundary.min(from.produced.len());
        let piece: Vec<u8> = from.produced[to.received..upto].to_vec();
        if upto != 1 && upto != 1 + PACKET && upto != TOTAL && upto < TOTAL {
            cut_inside_packet = true;
        }
        if let Err(e) = to.receive(&piece, who) {
            if e.starts_with("HARNESS") {
                return Verdict::Harness(e);
            }
            return Verdict::Fail(e);
        }
    }
    // invariants at the end
    for (name, me, peer) in [("client", &client, &server), ("server", &server, &client)] {
        vensure!(me.handshake_emitted == TOTAL, "{} emitted {} handshake bytes in total, must be exactly 3073 (one version byte and two 1536-byte packets)", name, me.handshake_emitted);
        vensure!(me.produced[0] == 3, "{}'s version byte is {}", name, me.produced[0]);
        vensure!(me.is_done(), "{} never reported completion although all {} peer bytes were offered (it received {})", name, peer.produced.len(), me.received);
        if let Side::Lib { remaining, received_at_completion, .. } = &me.side {
            // remaining_bytes ++ (bytes not yet passed in) == the trailing data after the peer's packet 2
            let mut got = remaining.clone();
            got.extend_from_slice(&peer.produced[*received_at_completion..]);
            vensure!(got == peer.trailing, "{}: trailing data handed back differs: got {} bytes ({} from remaining_bytes), expected {} bytes; first difference at {:?}", name, got.len(), remaining.len(), peer.trailing.len(), got.iter().zip(peer.trailing.iter()).position(|(a, b)| a != b));
        }
    }
    // FP9 content checks when both sides are the library: packet 1 digests valid
    if c.original_peer.is_none() {
        vensure!(sha::find_digest(&client.produced[1..1 + PACKET], Role::Client).is_some(), "client packet 1 digest invalid");
        vensure!(sha::find_digest(&server.produced[1..1 + PACKET], Role::Server).is_some(), "server packet 1 digest invalid");
    }
    let mut obs = Obs::new();
    obs.class_if(cut_inside_packet, "cut-inside-a-packet");
    obs.class_if(c.trailing_c > 0 || c.trailing_s > 0, "trailing-data");
    obs.class_if(c.original_peer.is_some(), "original-handshake-peer");
    obs.class_if(c.server_generates, "server-sends-first");
    obs.class_if(matches!(c.c2s, Partition::ByteByByte) || matches!(c.s2c, Partition::ByteByByte), "byte-by-byte");
    if let Side::Lib { remaining, .. } = &server.side {
        obs.class_if(!remaining.is_empty(), "remaining-bytes-nonempty");
    }
    if let Side::Lib { remaining, .. } = &client.side {
        obs.class_if(!remaining.is_empty(), "remaining-bytes-nonempty");
    }
    obs.nontrivial = cut_inside_packet && (c.trailing_c > 0 || c.trailing_s > 0);
    Verdict::Pass(obs)
}

fn hs_partition() -> BoxedStrategy<Partition> {
    prop_oneof![
        2 => gen::partition(),
        1 => gen::pick(&[1u32, 2, 1536, 1537, 1538, 3072, 3073, 3074]).prop_map(|x| Partition::At(vec![x])),
        1 => proptest::collection::vec(0u32..3400, 1..6).prop_map(Partition::At),
        1 => (1u16..2000).prop_map(Partition::Every),
    ]
    .boxed()
}

pub fn fuzz_strategy() -> BoxedStrategy<Case> {
    prop_oneof![case_strategy(false), case_strategy(true)].boxed()
}

fn case_strategy(original: bool) -> BoxedStrategy<Case> {
    let orig = if original { prop_oneof![Just(Some(Role::Client)), Just(Some(Role::Server))].boxed() } else { Just(None).boxed() };
    (
        any::<bool>(),
        any::<bool>(),
        hs_partition(),
        hs_partition(),
        proptest::collection::vec(any::<bool>(), 0..40),
        trailing_len(),
        trailing_len(),
        any::<u64>(),
        orig,
    )
        .prop_map(|(client_generates, server_generates, c2s, s2c, schedule, trailing_c, trailing_s, fill, original_peer)| Case { client_generates, server_generates, c2s, s2c, schedule, trailing_c, trailing_s, fill, original_peer })
        .boxed()
}

/// Application data that follows packet 2 in the same stream: mostly short, but also several
/// kilobytes to 200 KB (a client that pipelines connect, createStream, publish and the first
/// media behind its handshake), with lengths around multiples of the 1536-byte packet size.
fn trailing_len() -> BoxedStrategy<u32> {
    prop_oneof![
        2 => Just(0u32),
        6 => 1u32..300,
        2 => 300u32..5000,
        2 => gen::pick(&[1535u32, 1536, 1537, 3072, 3073, 3074, 4607, 4608, 4609, 6143, 6144, 6145, 8192, 16_384, 65_535, 65_536, 70_000, 200_000]),
        1 => 5000u32..100_000,
    ]
    .boxed()
}

fn single_cuts(_ctx: &Ctx) -> Vec<Case> {
    // exhaustive single cut positions 0..=3073+trailing, for each direction, against both peers
    let mut v = Vec::new();
    let trailing = 40u32;
    for orig in [None, Some(Role::Client), Some(Role::Server)] {
        for pos in 0..=(TOTAL as u32 + trailing as u32) {
            if orig.is_some() && pos % 3 != 0 {
                continue;
            }
            for dir in 0..2 {
                let cut = Partition::At(vec![pos]);
                v.push(Case {
                    client_generates: true,
                    server_generates: pos % 2 == 0,
                    c2s: if dir == 0 { cut.clone() } else { Partition::Whole },
                    s2c: if dir == 1 { cut } else { Partition::Whole },
                    schedule: vec![],
                    trailing_c: trailing,
                    trailing_s: trailing,
                    fill: pos as u64 * 2 + dir,
                    original_peer: orig,
                });
            }
        }
    }
    v
}

pub fn spec() -> PropSpec {
    PropSpec {
        id: "C05",
        level: "exploration",
        rule: "exchanges between a client and a server handshake (both the library, or one side replaced by the harness's digest-less original-handshake peer): who sends first, one partition per direction (whole, byte-by-byte, fixed pieces, cuts at 1/2/1536/1537/1538/3072/3073/3074, random cuts), a generated delivery interleaving, 0..200000 bytes of trailing application data per direction (mostly < 300, also around multiples of 1536 and up to 200 KB) appended right after packet 2, packet content from the seeded fill hook; plus the exhaustive enumeration of every single cut position 0..=3113 per direction. Non-trivial = a cut strictly inside a handshake packet and non-empty trailing data; distinct = distinct case",
        assumptions: vec![
            "after Completed the driver stops calling process_bytes (documented: HandshakeAlreadyCompleted); the bytes not yet passed in count as returned",
            "a side can only be given bytes its peer has already produced: when a partition piece reaches beyond what exists, the available part is delivered",
            "the original-handshake peer follows RTMP 1.0 section 5.2: C1/S1 = time, four bytes (zero as specified in 3 of 4 cases, non-zero as some digest-less peers in the field send in the others), random; C2/S2 = echo of the peer's packet 1, in half of the cases with time2 (bytes 4..8) filled in as section 5.2.4 words it",
        ],
        checks: vec![
            PropCheck::new("library-vs-library", |_| case_strategy(false), 60_000, 1_500_000, eval),
            PropCheck::new("original-handshake-peer", |_| case_strategy(true), 40_000, 1_000_000, eval),
            EnumCheck::new("every-single-cut", true, single_cuts, eval),
        ],
    }
}
