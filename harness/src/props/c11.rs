//! C11 — generated handshake packets carry valid Flash-Player-9 digests and signatures.
//! Oracle: RefHmac (own SHA-256/HMAC + the FP9 digest rules), exhaustive over the 728 digest
//! offsets of both schemes and both roles, random over the remaining packet content.

use crate::core::*;
use crate::refs::sha::{self, Role, Scheme, PACKET};
use rml_rtmp::handshake::{Handshake, HandshakeProcessResult, PeerType};
use serde::{Deserialize, Serialize};

pub struct FillGuard;
impl FillGuard {
    pub fn install(f: Box<dyn FnMut(&mut [u8])>) -> FillGuard {
        rml_rtmp::verif::set_random_fill(Some(f));
        FillGuard
    }
}
impl Drop for FillGuard {
    fn drop(&mut self) {
        rml_rtmp::verif::set_random_fill(None);
    }
}

pub fn peer_type(r: Role) -> PeerType {
    match r {
        Role::Client => PeerType::Client,
        Role::Server => PeerType::Server,
    }
}

#[derive(Clone, Debug, Serialize, Deserialize)]
pub struct OwnCase {
    pub role: Role,
    pub offset: u16,
    pub high: bool,
    pub spread: u8,
    pub fill: u64,
    /// obtain packet 0+1 through process_bytes(&[]) instead of generate_outbound_p0_and_p1
    pub via_process: bool,
}

fn eval_own(c: &OwnCase) -> Verdict {
    if let Err(e) = sha::self_test() {
        return Verdict::Harness(e);
    }
    let (offset, high, spread, fill) = (c.offset as usize, c.high, c.spread, c.fill);
    let mut calls = 0u64;
    let _g = FillGuard::install(Box::new(move |buf: &mut [u8]| {
        calls += 1;
        sha::prng_fill(fill.wrapping_add(calls), buf);
        if buf.len() == PACKET - 12 {
            // packet 1 fill covers bytes 8..1532: steer both pointer groups to the wanted offset
            sha::set_pointer(&mut buf[0..4], offset, high, spread);
            sha::set_pointer(&mut buf[764..768], offset, high, spread);
        }
    }));
    let mut h = Handshake::new(peer_type(c.role));
    let out = if c.via_process {
        match h.process_bytes(&[]) {
            Ok(HandshakeProcessResult::InProgress { response_bytes }) => response_bytes,
            other => vfail!("process_bytes(&[]) on a fresh handshake returned {:?}", other.map(|_| "Completed")),
        }
    } else {
        match h.generate_outbound_p0_and_p1() {
            Ok(b) => b,
            Err(e) => vfail!("generate_outbound_p0_and_p1 failed: {:?}", e),
        }
    };
    vensure!(out.len() == 1 + PACKET, "packet 0+1 is {} bytes, must be 1537", out.len());
    vensure!(out[0] == 3, "version byte is {}, must be 3", out[0]);
    let p1 = &out[1..];
    let mut obs = Obs::new();
    match sha::find_digest(p1, c.role) {
        None => vfail!("packet 1 of the {:?} carries no valid digest at either probed position (offset steered to {})", c.role, offset),
        Some((scheme, pos)) => {
            let got_offset = pos - scheme.pointer() - 4;
            obs.class(match scheme {
                Scheme::At8 => "digest-in-first-half (pointer at 8)",
                Scheme::At772 => "digest-in-second-half (pointer at 772)",
            });
            obs.class_if(got_offset == offset % 728, "offset-steered-by-hook");
            obs.class_if(got_offset != offset % 728, "offset-not-steered");
            obs.class_if(got_offset == 0 || got_offset == 727, "extreme-offset");
        }
    }
    obs.nontrivial = true;
    Verdict::Pass(obs)
}

#[derive(Clone, Debug, Serialize, Deserialize)]
pub struct AnswerCase {
    pub lib_role: Role,
    /// None = digest-less packet 1 (original handshake); Some = FP9 packet 1 with this scheme
    pub scheme: Option<Scheme>,
    pub offset: u16,
    pub high: bool,
    pub spread: u8,
    pub fill: u64,
    /// the library side generates its packet 0+1 before it receives anything
    pub pre_generate: bool,
    /// peer bytes are passed in two pieces cut here (0 = one piece)
    pub split: u16,
    /// 0 = random, 1 = all zero, 2 = original specification layout (time, four zero bytes, random)
    pub plain_kind: u8,
}

/// Builds the peer's packet 1 (without the version byte).
pub fn peer_p1(role: Role, scheme: Option<Scheme>, offset: usize, high: bool, spread: u8, fill: u64, plain_kind: u8) -> (Vec<u8>, Option<[u8; 32]>) {
    let mut p1 = vec![0u8; PACKET];
    match scheme {
        Some(s) => {
            sha::prng_fill(fill ^ 0xABCD, &mut p1);
            // a peer may fill the non-digest bytes with zeros (or a constant) instead of random data
            match (fill >> 24) % 6 {
                0 => p1.iter_mut().for_each(|b| *b = 0),
                1 => p1.iter_mut().for_each(|b| *b = 0x5A),
                _ => {}
            }
            // time and version fields vary: zero time, zero version (original-spec look-alike),
            // Flash-player style versions with a zero or non-zero leading byte, or random
            match (fill >> 20) % 5 {
                0 => p1[4..8].copy_from_slice(&[0, 0, 0, 0]),
                1 => p1[4..8].copy_from_slice(&[0, 9, 124, 2]),
                2 => p1[4..8].copy_from_slice(&[128, 0, 7, 2]),
                3 => p1[0..8].copy_from_slice(&[0, 0, 0, 0, 9, 0, 124, 2]),
                _ => {}
            }
            let pos = sha::place_digest(&mut p1, role, s, offset, high, spread);
            let mut d = [0u8; 32];
            d.copy_from_slice(&p1[pos..pos + 32]);
            (p1, Some(d))
        }
        None => {
            match plain_kind {
                1 => {}
                2 => {
                    sha::prng_fill(fill ^ 0x1234, &mut p1);
                    for b in &mut p1[4..8] {
                        *b = 0;
                    }
                }
                _ => sha::prng_fill(fill ^ 0x77, &mut p1),
            }
            (p1, None)
        }
    }
}

fn eval_answer(c: &AnswerCase) -> Verdict {
    if let Err(e) = sha::self_test() {
        return Verdict::Harness(e);
    }
    let peer_role = c.lib_role.other();
    let (p1, digest) = peer_p1(peer_role, c.scheme, c.offset as usize, c.high, c.spread, c.fill, c.plain_kind);
    if c.scheme.is_none() && sha::find_digest(&p1, peer_role).is_some() {
        return Verdict::Harness("digest-less packet accidentally carries a digest".to_string());
    }
    let fill = c.fill;
    let mut calls = 0u64;
    let _g = FillGuard::install(Box::new(move |buf: &mut [u8]| {
        calls += 1;
        sha::prng_fill(fill.wrapping_mul(31).wrapping_add(calls), buf);
    }));
    let mut h = Handshake::new(peer_type(c.lib_role));
    let mut emitted: Vec<u8> = Vec::new();
    if c.pre_generate {
        match h.generate_outbound_p0_and_p1() {
            Ok(b) => emitted.extend(b),
            Err(e) => vfail!("generate_outbound_p0_and_p1 failed: {:?}", e),
        }
    }
    let mut wire = vec![3u8];
    wire.extend_from_slice(&p1);
    // in three cases of five the first bytes of the peer's packet 2 arrive in the same read as its
    // packet 1 (packet 1 is the FIRST 1536 bytes after the version byte, whatever follows)
    let extra = [0usize, 0, 1, 700, PACKET - 1][((c.fill >> 24) % 5) as usize];
    if extra > 0 {
        let mut more = vec![0u8; extra];
        sha::prng_fill(c.fill ^ 0xE7, &mut more);
        wire.extend_from_slice(&more);
    }
    let cut = ((c.split as usize) * (wire.len() + 1)) >> 16;
    let pieces: Vec<&[u8]> = if cut == 0 || cut >= wire.len() { vec![&wire[..]] } else { vec![&wire[..cut], &wire[cut..]] };
    for piece in pieces {
        match h.process_bytes(piece) {
            Ok(HandshakeProcessResult::InProgress { response_bytes }) => emitted.extend(response_bytes),
            Ok(HandshakeProcessResult::Completed { .. }) => vfail!("handshake reported completion before the peer's packet 2 was received"),
            Err(e) => vfail!("process_bytes failed on a well-formed packet 0+1: {:?}", e),
        }
    }
    vensure!(emitted.len() == 1 + 2 * PACKET, "after receiving packet 0+1 the library has emitted {} bytes, expected 3073 (version byte, packet 1, packet 2)", emitted.len());
    vensure!(emitted[0] == 3, "version byte is {}", emitted[0]);
    let own_p1 = &emitted[1..1 + PACKET];
    vensure!(sha::find_digest(own_p1, c.lib_role).is_some(), "own packet 1 carries no valid digest");
    let p2 = &emitted[1 + PACKET..];
    let mut obs = Obs::new();
    match digest {
        Some(d) => {
            let want = sha::p2_signature(c.lib_role, &d, &p2[..PACKET - 32]);
            vensure!(p2[PACKET - 32..] == want[..], "packet 2 of the {:?} does not end with the response signature for the peer digest at {:?} offset {}", c.lib_role, c.scheme, c.offset);
            obs.class(match c.scheme.unwrap() {
                Scheme::At8 => "peer-digest-pointer-at-8",
                Scheme::At772 => "peer-digest-pointer-at-772",
            });
            obs.class_if(p1[4] == 0, "peer-version-field-starts-with-zero");
            obs.class_if(p1[1400..1500].iter().all(|b| *b == 0) || p1[100..200].iter().all(|b| *b == 0), "peer-packet-zero-filled");
            obs.class_if(p1[4..8] == [0, 0, 0, 0], "peer-version-field-all-zero");
        }
        None => {
            vensure!(p2 == &p1[..], "packet 2 in answer to a digest-less packet 1 is not an exact echo (first difference at byte {:?})", p2.iter().zip(p1.iter()).position(|(a, b)| a != b));
            obs.class("digest-less-echo");
        }
    }
    obs.class_if(c.pre_generate, "packet-1-sent-before-receiving");
    obs.class_if(cut != 0, "peer-packet-split");
    obs.nontrivial = true;
    Verdict::Pass(obs)
}

fn mixf(seed: u64, a: u64, b: u64) -> u64 {
    let mut x = seed ^ a.wrapping_mul(0x9E3779B97F4A7C15) ^ b.wrapping_mul(0xC2B2AE3D27D4EB4F);
    x ^= x >> 29;
    x = x.wrapping_mul(0xBF58476D1CE4E5B9);
    x ^ (x >> 32)
}

pub fn spec() -> PropSpec {
    PropSpec {
        id: "C11",
        level: "exploration",
        rule: "(the peer's packet 1 is followed in three cases of five by the first 1 / 700 / 1535 bytes of its packet 2 in the same read) enumeration: own packet 1 for 2 roles x every digest offset 0..727 (the hook steers the four pointer bytes so their sum selects the offset; both representatives t and t+728 where possible) and packet 2 in answer to a peer packet 1 for 2 roles x 2 schemes x 728 offsets, plus digest-less packet 1 (random, all-zero, original layout); remaining bytes from a PRNG seeded by VERIF_SEED (quick: 1 fill per obligation, thorough: 25). Every case is non-trivial (a distinct offset/scheme/role obligation); distinct = distinct (role, scheme, offset, fill)",
        assumptions: vec![
            "RefHmac (own SHA-256/HMAC, self-tested against FIPS 180-4 / RFC 4231 vectors on every case) and the FP9 rules from the clean-room description: keys 'Genuine Adobe Flash Player 001' / 'Genuine Adobe Flash Media Server 001' (+32-byte suffix for packet 2), offset = sum of 4 pointer bytes mod 728 + 12 / 776",
            "hook verif-hooks::set_random_fill replaces the handshake's random source; the digest computation is the library's own",
        ],
        checks: vec![
            EnumCheck::new("own-packet-1-all-offsets", true, |ctx| {
                let fills = if ctx.tier == Tier::Thorough { 200 } else { 10 };
                let mut v = Vec::new();
                for role in [Role::Client, Role::Server] {
                    for offset in 0..728u16 {
                        for f in 0..fills {
                            let fill = mixf(ctx.seed, offset as u64, f);
                            v.push(OwnCase { role, offset, high: (f + offset as u64) % 2 == 1, spread: (fill >> 8) as u8, fill, via_process: f % 2 == 1 || (role == Role::Server && offset % 2 == 0) });
                        }
                    }
                }
                v
            }, eval_own),
            EnumCheck::new("packet-2-all-peer-offsets", true, |ctx| {
                let fills = if ctx.tier == Tier::Thorough { 200 } else { 10 };
                let mut v = Vec::new();
                for lib_role in [Role::Client, Role::Server] {
                    for scheme in [Scheme::At8, Scheme::At772] {
                        for offset in 0..728u16 {
                            for f in 0..fills {
                                let fill = mixf(ctx.seed ^ 0x55, offset as u64, f * 4 + scheme.pointer() as u64);
                                v.push(AnswerCase {
                                    lib_role,
                                    scheme: Some(scheme),
                                    offset,
                                    high: (fill >> 3) & 1 == 1,
                                    spread: (fill >> 8) as u8,
                                    fill,
                                    pre_generate: lib_role == Role::Client || (fill >> 5) & 1 == 1,
                                    split: if (fill >> 6) & 3 == 0 { (fill >> 16) as u16 } else { 0 },
                                    plain_kind: 0,
                                });
                            }
                        }
                    }
                }
                v
            }, eval_answer),
            EnumCheck::new("packet-2-digest-less-echo", false, |ctx| {
                let n = if ctx.tier == Tier::Thorough { 50_000 } else { 3_000 };
                let mut v = Vec::new();
                for lib_role in [Role::Client, Role::Server] {
                    for i in 0..n {
                        let fill = mixf(ctx.seed ^ 0x99, i, 7);
                        v.push(AnswerCase { lib_role, scheme: None, offset: 0, high: false, spread: 0, fill, pre_generate: i % 2 == 0, split: if i % 3 == 0 { (fill >> 16) as u16 } else { 0 }, plain_kind: (i % 3) as u8 });
                    }
                }
                v
            }, eval_answer),
        ],
    }
}
