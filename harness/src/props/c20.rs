//! C20 — RTMP timestamps form a wrap-around clock.
//! Oracle: algebraic laws computed by the harness in u64/i64 arithmetic.

use crate::core::*;
use crate::gen;
use proptest::prelude::*;
use rml_rtmp::time::RtmpTimestamp;
use serde::{Deserialize, Serialize};
use std::cmp::Ordering;

#[derive(Clone, Debug, Serialize, Deserialize)]
pub struct Pair {
    pub a: u32,
    pub d: u32,
}

const HALF: u64 = 1 << 31;
const M: u64 = 1 << 32;

fn grid_pool() -> Vec<u32> {
    let mut v: Vec<u32> = vec![0, 1, 2, 3, 1000, 0xFF_FFFF, 0x100_0000];
    for k in 0..5u32 {
        v.push((HALF as u32).wrapping_sub(2).wrapping_add(k)); // 2^31-2 .. 2^31+2
        v.push(0u32.wrapping_sub(k + 1)); // 2^32-1 .. 2^32-5
    }
    for s in [8u32, 16, 24, 30] {
        v.push((1u32 << s) - 1);
        v.push(1u32 << s);
        v.push((1u32 << s) + 1);
    }
    v.push(0x4000_0000);
    v.push(0xC000_0000);
    v.push(0xBFFF_FFFF);
    v.push(0x7FFF_0000);
    v.push(0x8000_FFFF);
    // pad to 64 distinct values with a fixed progression
    let mut x: u32 = 0x1234_5678;
    while v.len() < 64 {
        x = x.wrapping_mul(1664525).wrapping_add(1013904223);
        if !v.contains(&x) {
            v.push(x);
        }
    }
    v.sort_unstable();
    v.dedup();
    v
}

/// expected order of x relative to y on the 2^32 circle: Some(Greater) when x is 1..2^31-1 ahead
/// of y, Some(Less) when y is 1..2^31-1 ahead of x, Some(Equal) when equal, None at the antipode.
fn expected_cmp(x: u32, y: u32) -> Option<Ordering> {
    let ahead = (x as u64 + M - y as u64) % M; // how far x is ahead of y
    if ahead == 0 {
        Some(Ordering::Equal)
    } else if ahead < HALF {
        Some(Ordering::Greater)
    } else if ahead > HALF {
        Some(Ordering::Less)
    } else {
        None
    }
}

fn check_order(x: u32, y: u32) -> Result<(), String> {
    let tx = RtmpTimestamp::new(x);
    let ty = RtmpTimestamp::new(y);
    let c_xy = tx.cmp(&ty);
    let c_yx = ty.cmp(&tx);
    if c_xy != c_yx.reverse() {
        return Err(format!("cmp not antisymmetric for {} vs {}: {:?} / {:?}", x, y, c_xy, c_yx));
    }
    if (c_xy == Ordering::Equal) != (x == y) || (tx == ty) != (x == y) {
        return Err(format!("order/equality disagree for {} vs {}: cmp={:?} eq={}", x, y, c_xy, tx == ty));
    }
    if let Some(exp) = expected_cmp(x, y) {
        if c_xy != exp {
            return Err(format!("cmp({}, {}) = {:?}, expected {:?}", x, y, c_xy, exp));
        }
    }
    // every comparison surface must agree with Ord::cmp
    let surfaces: [(&str, Option<Ordering>); 3] = [
        ("PartialOrd<RtmpTimestamp>", tx.partial_cmp(&ty)),
        ("PartialOrd<u32> (timestamp vs integer)", tx.partial_cmp(&y)),
        ("PartialOrd<RtmpTimestamp> for u32 (integer vs timestamp)", x.partial_cmp(&ty)),
    ];
    for (name, got) in surfaces.iter() {
        if *got != Some(c_xy) {
            return Err(format!("{} gives {:?} for {} vs {}, Ord::cmp gives {:?}", name, got, x, y, c_xy));
        }
    }
    let lt = c_xy == Ordering::Less;
    let gt = c_xy == Ordering::Greater;
    if (tx < ty) != lt || (tx > ty) != gt || (tx < y) != lt || (tx > y) != gt || (x < ty) != lt || (x > ty) != gt {
        return Err(format!("operator </> disagrees with cmp for {} vs {}", x, y));
    }
    if (tx <= ty) != !gt || (tx >= ty) != !lt {
        return Err(format!("operator <=/>= disagrees with cmp for {} vs {}", x, y));
    }
    if (tx == y) != (x == y) || (x == ty) != (x == y) {
        return Err(format!("equality against plain integer disagrees for {} vs {}", x, y));
    }
    // max / min follow the order
    let mx = std::cmp::max(tx, ty);
    let mn = std::cmp::min(tx, ty);
    if gt && (mx.value != x || mn.value != y) || lt && (mx.value != y || mn.value != x) {
        return Err(format!("max/min disagree with cmp for {} vs {}", x, y));
    }
    Ok(())
}

fn eval(p: &Pair) -> Verdict {
    let (a, d) = (p.a, p.d);
    let ta = RtmpTimestamp::new(a);
    let td = RtmpTimestamp::new(d);
    let sum = ((a as u64 + d as u64) % M) as u32;
    let diff = ((a as u64 + M - d as u64) % M) as u32;
    vensure!((ta + d).value == sum, "{} + {} (u32 overload) = {}, expected {}", a, d, (ta + d).value, sum);
    vensure!((ta + td).value == sum, "{} + {} (timestamp overload) = {}, expected {}", a, d, (ta + td).value, sum);
    vensure!((ta - d).value == diff, "{} - {} (u32 overload) = {}, expected {}", a, d, (ta - d).value, diff);
    vensure!((ta - td).value == diff, "{} - {} (timestamp overload) = {}, expected {}", a, d, (ta - td).value, diff);
    vensure!(((ta + d) - d).value == a, "({} + {}) - {} != {}", a, d, d, a);
    vensure!(((ta - d) + d).value == a, "({} - {}) + {} != {}", a, d, d, a);
    vensure!(((ta + td) - td).value == a && ((ta - td) + td).value == a, "timestamp-overload add/sub not inverse for {} {}", a, d);
    let mut t2 = RtmpTimestamp::new(0);
    t2.set(a);
    vensure!(t2 == ta && t2.value == a, "set({}) does not yield the value", a);
    // order of a versus a+d, a-d, d
    for (x, y) in [(sum, a), (a, sum), (diff, a), (a, diff), (a, d), (d, a), (a, a)] {
        if let Err(e) = check_order(x, y) {
            return Verdict::Fail(e);
        }
    }
    // the statement's headline law, spelled out
    if d >= 1 && (d as u64) < HALF {
        vensure!(ta + d > ta && ta < ta + d, "a+d must be later than a for a={} d={}", a, d);
        vensure!(ta - d < ta && ta > ta - d, "a-d must be earlier than a for a={} d={}", a, d);
    } else if (d as u64) > HALF {
        vensure!(ta + d < ta && ta > ta + d, "a+d must be earlier than a for a={} d={} (more than half way round)", a, d);
    }
    let mut obs = Obs::new();
    let wraps_add = a as u64 + d as u64 >= M;
    let wraps_sub = d > a;
    let near_half = (d as i64 - HALF as i64).abs() <= 2;
    obs.class_if(wraps_add, "sum-wraps");
    obs.class_if(wraps_sub, "difference-wraps");
    obs.class_if(near_half, "d-within-2-of-2^31");
    obs.class_if(d as u64 == HALF, "antipode");
    obs.class_if(d == 0, "d=0");
    obs.nontrivial = wraps_add || wraps_sub || near_half;
    Verdict::Pass(obs)
}

pub fn spec() -> PropSpec {
    PropSpec {
        id: "C20",
        level: "exploration",
        rule: "pairs (a,d): exhaustive grid over a fixed 64-value boundary pool (powers of two +-1, 2^31-2..2^31+2, 2^32-5..2^32-1, 24-bit threshold) plus random pairs from the u32 edge pool; non-trivial = a+d or a-d wraps past 2^32, or d within 2 of 2^31; distinct = distinct (a,d)",
        assumptions: vec![
            "at d = 2^31 exactly (the antipode) only antisymmetry and != Equal are asserted: the statement's 'later exactly when 1..2^31-1 ahead' cannot be expressed by a total order there",
            "transitivity is not asserted (cannot hold on a circle)",
        ],
        checks: vec![
            EnumCheck::new("grid", true, |_ctx| {
                let pool = grid_pool();
                let mut v = Vec::new();
                for &a in &pool {
                    for &d in &pool {
                        v.push(Pair { a, d });
                    }
                }
                v
            }, eval),
            PropCheck::new("random", |_ctx| (gen::edge_u32(), gen::edge_u32()).prop_map(|(a, d)| Pair { a, d }).boxed(), 1_000_000, 20_000_000, eval),
            PropCheck::new("random-near-half", |_ctx| (any::<u32>(), -3i64..4).prop_map(|(a, k)| Pair { a, d: (HALF as i64 + k) as u32 }).boxed(), 200_000, 5_000_000, eval),
        ],
    }
}
