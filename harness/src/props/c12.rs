//! C12 — AMF0 wire format conforms to the specification in both directions.
//! Oracle: RefAmf0 (independent encoder + strict ordered decoder written from the specification).

use crate::core::*;
use crate::gen::{self, AmfCfg};
use crate::refs::amf0::{self as ra, V};
use proptest::prelude::*;
use rml_amf0::Amf0DeserializationError;
use serde::{Deserialize, Serialize};
use std::io::Cursor;

#[derive(Clone, Debug, Serialize, Deserialize)]
pub struct Case {
    pub values: Vec<V>,
}

fn classify(values: &[V], obs: &mut Obs) {
    let mut container = false;
    let mut ecma_odd = false;
    let mut bool_gt1 = false;
    let mut nested = false;
    let mut wide = false;
    let mut chain = false;
    for v in values {
        ra::walk(v, &mut |n| match n {
            V::Obj(p) => {
                container = true;
                if p.iter().any(|(_, x)| ra::has_container(x)) {
                    nested = true;
                }
            }
            V::Ecma(c, p) => {
                container = true;
                if *c as usize != p.len() {
                    ecma_odd = true;
                }
            }
            V::Arr(a) => {
                container = true;
                if a.iter().any(ra::has_container) {
                    nested = true;
                }
            }
            V::ArrRep(_, n) | V::ObjRep(_, n) => {
                container = true;
                if *n >= 1024 {
                    wide = true;
                }
            }
            V::Deep { depth, .. } => {
                container = true;
                nested = true;
                if *depth >= 64 {
                    chain = true;
                }
            }
            V::Bool(b) => {
                if *b > 1 {
                    bool_gt1 = true;
                }
            }
            _ => {}
        });
    }
    obs.class_if(container, "container");
    obs.class_if(nested, "nested");
    obs.class_if(wide, "container-with-1024-or-more-children");
    obs.class_if(chain, "chain-of-64-or-more-nested-containers");
    obs.class_if(ecma_odd, "ecma-count-differs-from-size");
    obs.class_if(bool_gt1, "boolean-byte-above-1");
    obs.nontrivial_if(container || ecma_odd || bool_gt1);
}

/// A case judged right after a call on the same thread that the library refused half way.
#[derive(Clone, Debug, Serialize, Deserialize)]
pub struct AfterRefusal {
    pub kind: u8,
    pub case: Case,
}

/// Values nested deeper than this are outside what the library promises to handle (documented on
/// `Amf0DeserializationError::MaxNestingDepthExceeded`): a top-level value is at 0.
const LIB_NESTING_LIMIT: usize = 128;

/// Encoder direction: the library's bytes must be exactly a specification encoding of the input.
fn eval_encoder(case: &Case) -> Verdict {
    let input = ra::to_lib_list(&case.values);
    let bytes = match rml_amf0::serialize(&input) {
        Ok(b) => b,
        Err(e) => {
            // nesting beyond the library's documented limit of 128 may be refused (the decoder
            // refuses it too); everything else AMF0 can express must be encoded
            if case.values.iter().any(|v| ra::deepest(v) > LIB_NESTING_LIMIT) {
                let mut obs = Obs::new();
                obs.class("nested-deeper-than-128-refused-by-encoder");
                return Verdict::Pass(obs);
            }
            vfail!("encoder refused a value AMF0 can express: {:?}; input {}", e, ra::brief(&input))
        }
    };
    let parsed = match ra::dec_strict(&bytes) {
        Ok(p) => p,
        Err(e) => vfail!("library output is not a well-formed AMF0 encoding: {}; input {}", e, ra::brief(&input)),
    };
    // no ECMA arrays or non-canonical booleans may come out of the encoder, no duplicate names
    let mut bad: Option<String> = None;
    for v in &parsed {
        ra::walk(v, &mut |n| match n {
            V::Ecma(_, _) => bad = Some("encoder emitted an ECMA array (marker 8)".to_string()),
            V::Bool(b) if *b > 1 => bad = Some(format!("encoder emitted boolean byte {}", b)),
            V::Obj(p) => {
                let mut names: Vec<String> = p.iter().map(|x| x.0.build()).collect();
                names.sort();
                let n = names.len();
                names.dedup();
                if names.len() != n {
                    bad = Some("encoder emitted a duplicate property name".to_string());
                }
            }
            _ => {}
        });
    }
    if let Some(b) = bad {
        return Verdict::Fail(b);
    }
    let denoted = ra::to_lib_list(&parsed);
    vensure!(ra::lib_list_eq(&denoted, &input), "library output denotes {} but the input was {}", ra::brief(&denoted), ra::brief(&input));
    let again = match ra::enc(&parsed) {
        Ok(b) => b,
        Err(e) => return Verdict::Harness(format!("reference encoder refuses what the strict decoder parsed: {}", e)),
    };
    vensure!(again == bytes, "library bytes are not the canonical specification encoding of their own content (lengths {} vs {})", bytes.len(), again.len());
    let mut obs = Obs::new();
    classify(&case.values, &mut obs);
    Verdict::Pass(obs)
}

/// Decoder direction: every specification-conformant encoding decodes to the value it denotes.
fn eval_decoder(case: &Case) -> Verdict {
    let bytes = match ra::enc(&case.values) {
        Ok(b) => b,
        Err(e) => return Verdict::Harness(format!("generator produced an unencodable tree: {}", e)),
    };
    // self-check of the reference: its strict decoder must invert its encoder
    match ra::dec_strict(&bytes) {
        Ok(p) if p == normalise(&case.values) => {}
        other => return Verdict::Harness(format!("RefAmf0 enc/dec do not invert each other: {:?}", other.map(|p| p.len()))),
    }
    let expected = ra::to_lib_list(&case.values);
    let total = bytes.len() as u64;
    let mut cursor = Cursor::new(bytes);
    match rml_amf0::deserialize(&mut cursor) {
        Err(rml_amf0::Amf0DeserializationError::MaxNestingDepthExceeded) if case.values.iter().any(|v| ra::deepest(v) > LIB_NESTING_LIMIT) => {
            // the library documents a nesting limit of 128; beyond it a refusal is what it promises
            let mut obs = Obs::new();
            obs.class("nested-deeper-than-128-refused-by-decoder");
            return Verdict::Pass(obs);
        }
        Err(e) => vfail!("decoder rejects a conformant encoding: {:?}; tree {:?}", e, truncate(&format!("{:?}", case.values), 500)),
        Ok(out) => {
            vensure!(cursor.position() == total, "decoder stopped at byte {} of {}", cursor.position(), total);
            vensure!(ra::lib_list_eq(&out, &expected), "decoded {} but the encoding denotes {}", ra::brief(&out), ra::brief(&expected));
        }
    }
    let mut obs = Obs::new();
    classify(&case.values, &mut obs);
    Verdict::Pass(obs)
}

/// strings come back from the strict decoder as literals, compact forms expanded
fn normalise(vs: &[V]) -> Vec<V> {
    vs.iter().map(ra::expand).collect()
}

#[derive(Clone, Debug, Serialize, Deserialize)]
pub struct MarkerCase {
    pub marker: u8,
    /// 0 = top level, 1 = strict-array element, 2 = object property value, 3 = ECMA-array value
    pub position: u8,
    /// number of values before the marker at top level
    pub lead: u8,
}

fn eval_marker(c: &MarkerCase) -> Verdict {
    let filler = [0u8; 24];
    let mut bytes = Vec::new();
    for _ in 0..c.lead {
        bytes.extend_from_slice(&[ra::M_NULL]);
    }
    match c.position {
        0 => {}
        1 => bytes.extend_from_slice(&[ra::M_STRICT_ARRAY, 0, 0, 0, 1]),
        2 => bytes.extend_from_slice(&[ra::M_OBJECT, 0, 1, b'a']),
        _ => bytes.extend_from_slice(&[ra::M_ECMA, 0, 0, 0, 1, 0, 1, b'a']),
    }
    bytes.push(c.marker);
    bytes.extend_from_slice(&filler);
    let supported = matches!(c.marker, 0 | 1 | 2 | 3 | 5 | 6 | 8 | 10);
    let r = rml_amf0::deserialize(&mut Cursor::new(bytes));
    let mut obs = Obs::new();
    if c.marker == ra::M_OBJECT_END {
        // an object-end marker in value position is malformed input the statement does not rule on
        obs.class("marker-9-not-judged");
        return Verdict::Pass(obs);
    }
    if supported {
        obs.class("supported-marker");
        // the filler after the marker makes a complete value for 0,1,2,5,6; containers (3, 8, 10)
        // read the zero filler as an immediately closed / empty structure or fail on it - either is
        // fine here, this case only insists that a supported marker is not reported as unknown
        if let Err(Amf0DeserializationError::UnknownMarker { marker }) = &r {
            if *marker == c.marker {
                vfail!("supported marker {} reported as unknown", c.marker);
            }
        }
    } else {
        obs.class("unsupported-marker");
        obs.nontrivial = true;
        match r {
            Err(Amf0DeserializationError::UnknownMarker { marker }) if marker == c.marker => {}
            other => vfail!("marker {:#04x} of an unsupported type at position {} must be reported as UnknownMarker, got {:?}", c.marker, c.position, other.map(|v| ra::brief(&v))),
        }
    }
    Verdict::Pass(obs)
}

#[derive(Clone, Debug, Serialize, Deserialize)]
pub struct TruncCase {
    pub values: Vec<V>,
    /// cut fractions used when the encoding is longer than 400 bytes (all cuts otherwise)
    pub cuts: Vec<u16>,
}

fn eval_trunc(c: &TruncCase) -> Verdict {
    let full = ra::to_lib_list(&c.values);
    let bytes = match ra::enc(&c.values) {
        Ok(b) => b,
        Err(e) => return Verdict::Harness(format!("generator produced an unencodable tree: {}", e)),
    };
    let cuts: Vec<usize> = if bytes.len() <= 400 {
        (0..bytes.len()).collect()
    } else {
        let mut v: Vec<usize> = c.cuts.iter().map(|f| ((*f as u64 * bytes.len() as u64) >> 16) as usize).collect();
        // the region around the end and around 64 KiB strings matters most
        for k in 1..6 {
            v.push(bytes.len().saturating_sub(k));
        }
        v.sort_unstable();
        v.dedup();
        v
    };
    let mut obs = Obs::new();
    let mut inside_container = false;
    for cut in &cuts {
        let prefix = &bytes[..*cut];
        match rml_amf0::deserialize(&mut Cursor::new(prefix)) {
            Err(_) => obs.count("truncations-rejected", 1),
            Ok(got) => {
                obs.count("truncations-decoded-to-prefix", 1);
                if !ra::list_prefix(&got, &full) {
                    vfail!("prefix of {} bytes (of {}) decodes to {} which is not a prefix of {}", cut, bytes.len(), ra::brief(&got), ra::brief(&full));
                }
                if got.len() < full.len() || !ra::lib_list_eq(&got, &full) {
                    if got.last().map(|l| matches!(l, rml_amf0::Amf0Value::StrictArray(_))).unwrap_or(false) {
                        inside_container = true;
                    }
                }
            }
        }
    }
    obs.count("truncation-points", cuts.len() as u64);
    obs.class_if(inside_container, "array-ended-early-at-end-of-input");
    obs.nontrivial = c.values.iter().any(ra::has_container) && cuts.len() > 1;
    Verdict::Pass(obs)
}

pub fn spec() -> PropSpec {
    PropSpec {
        id: "C12",
        level: "exploration",
        rule: "(trees as in C04: chains of up to 200 nested containers - beyond the library's documented limit of 128 a refusal is accepted -, wide containers, numeric and sibling names; sub-checks '...-after-a-refused-call' make a half-way refused call on the same thread first) encoder direction: library-representable trees (strings/names 1..65535 bytes) checked byte-exactly through RefAmf0's strict ordered decoder and re-encoder; decoder direction: reference trees with arbitrary property order, ECMA arrays with count in {true, 0, 2^32-1, random}, Boolean bytes 0..255; markers: all 256 marker bytes x 4 positions (exhaustive); truncation: every cut point of encodings <= 400 bytes, sampled cuts above. Non-trivial = tree with a container, or a non-canonical legal encoding (ECMA count != size, Boolean byte > 1), or an unsupported marker, or truncation of a tree with a container; distinct = distinct tree / marker case",
        assumptions: vec![
            "property name \"\" is outside the decoder's documented domain and is not generated (known finding under C04)",
            "marker 9 (object end) in value position is malformed input the statement does not rule on: not judged",
            "duplicate property names are not generated (what they denote is ambiguous)",
            "RefAmf0 is trusted as the transcription of the AMF0 specification; it self-checks enc/dec inversion on every decoder-direction case",
        ],
        checks: vec![
            PropCheck::new("encoder", |_| gen::amf_values(AmfCfg::LIB_DEEP, 6).prop_map(|values| Case { values }).boxed(), 100_000, 3_000_000, eval_encoder),
            PropCheck::new("decoder", |_| gen::amf_values(AmfCfg::WIRE_DEEP, 6).prop_map(|values| Case { values }).boxed(), 100_000, 3_000_000, eval_decoder),
            PropCheck::new("encoder-after-a-refused-call", |_| (1u8..6, gen::amf_values(AmfCfg::LIB, 4)).prop_map(|(kind, values)| AfterRefusal { kind, case: Case { values } }).boxed(), 10_000, 300_000, |c: &AfterRefusal| { ra::disturb(c.kind); eval_encoder(&c.case) }),
            PropCheck::new("decoder-after-a-refused-call", |_| (1u8..6, gen::amf_values(AmfCfg::WIRE, 4)).prop_map(|(kind, values)| AfterRefusal { kind, case: Case { values } }).boxed(), 10_000, 300_000, |c: &AfterRefusal| { ra::disturb(c.kind); eval_decoder(&c.case) }),
            EnumCheck::new("markers", true, |_| {
                let mut v = Vec::new();
                for marker in 0..=255u8 {
                    for position in 0..4u8 {
                        for lead in [0u8, 2] {
                            v.push(MarkerCase { marker, position, lead });
                        }
                    }
                }
                v
            }, eval_marker),
            PropCheck::new("truncation", |_| (gen::amf_values(AmfCfg::WIRE, 5), proptest::collection::vec(any::<u16>(), 24)).prop_map(|(values, cuts)| TruncCase { values, cuts }).boxed(), 20_000, 600_000, eval_trunc),
            crate::targets::corpus_check(&["amf0_diff"]),
        ],
    }
}
