//! C18 — everything a session emits stays decodable by a conformant peer, at any uptime.
//! Oracle: RefChunkDec(strict) + RefMsg over the ordered list of packets returned by every public
//! call of a session driven through C09 / C10 histories, with the session clock shifted by the
//! verification hook, under every (k <= 8) or sampled drop subset of the droppable packets.

use crate::core::*;
use crate::props::c08::subsets;
use crate::props::{c09, c10};
use crate::refs::chunk::{Msg, RefChunkDec};
use crate::refs::msg::RM;
use crate::sess::*;
use proptest::prelude::*;
use serde::{Deserialize, Serialize};

#[derive(Clone, Debug, Serialize, Deserialize)]
pub enum History {
    Server(c09::Case),
    Client(c10::Case),
}

#[derive(Clone, Debug, Serialize, Deserialize)]
pub struct Case {
    pub history: History,
    pub clock: Clock,
    pub sample: u32,
}

const T24: u64 = 1 << 24;
const T32: u64 = 1 << 32;

fn decode_all(packets: &[&PacketRec]) -> Result<Vec<(Msg, u32, usize)>, String> {
    let mut d = RefChunkDec::new(true);
    let mut out = Vec::new();
    for (i, p) in packets.iter().enumerate() {
        let msgs = d.feed(&p.bytes).map_err(|e| format!("packet {} (returned by call {}): {}", i, p.call as isize, e))?;
        if d.pending_bytes() != 0 || d.incomplete() != 0 {
            return Err(format!("packet {} (returned by call {}) does not consist of whole messages", i, p.call as isize));
        }
        for m in msgs {
            out.push((m.msg, m.csid, i));
        }
    }
    Ok(out)
}

pub fn eval(c: &Case) -> Verdict {
    let mut rec: Vec<PacketRec> = Vec::new();
    let verdict = match &c.history {
        History::Server(h) => c09::eval_with(h, &c.clock, &mut rec),
        History::Client(h) => c10::eval_with(h, &c.clock, &mut rec),
    };
    let mut obs = Obs::new();
    match verdict {
        Verdict::Pass(_) => {}
        Verdict::Fail(m) => {
            if m.contains("cannot be decoded by a conformant peer") {
                return Verdict::Fail(m);
            }
            // a failure of the C09 / C10 model is decided by those properties' own checks; here the
            // packets returned up to that point are still examined
            obs.class("history-fails-C09/C10-judgement (packets still examined)");
        }
        other => return other,
    }
    let all: Vec<&PacketRec> = rec.iter().collect();
    let full = match decode_all(&all) {
        Ok(f) => f,
        Err(e) => vfail!("the packets returned by the session do not form a well-formed chunk stream: {}", e),
    };
    // message-level well-formedness and placement
    for (m, csid, pi) in &full {
        let p = all[*pi];
        let t = match m.type_id {
            15 => 18,
            17 => 20,
            t => t,
        };
        let parsed = match RM::parse(t, &m.payload) {
            Ok(r) => r,
            Err(e) => vfail!("message of type {} returned by call {} is not well-formed: {}", m.type_id, p.call as isize, e),
        };
        if matches!(m.type_id, 1 | 2 | 3 | 5 | 6) {
            vensure!(m.msid == 0 && *csid == 2, "protocol control message type {} sent on message stream {} / chunk stream {} (must be 0 / 2)", m.type_id, m.msid, csid);
        }
        if let Some(want) = p.expect_msid {
            let concerns = match (&parsed, m.type_id) {
                (_, 8) | (_, 9) | (RM::Data(_), _) => true,
                // status / error answers to a stream request travel on that stream
                (RM::Command(n, _, _, _), _) => n.build() == "onStatus" || n.build() == "_error",
                _ => false,
            };
            if concerns {
                vensure!(m.msid == want, "call {} named message stream {} but its {} travels on message stream {}", p.call as isize, want, match &parsed { RM::Command(n, _, _, a) => format!("{} {:?}", n.build(), a.first().and_then(|o| prop(o, "code")).and_then(as_str)), RM::Data(_) => "data message".to_string(), _ => format!("type {} message", m.type_id) }, m.msid);
            }
        }
    }
    // droppable marks
    for p in &all {
        match p.asked {
            Some(flag) => vensure!(p.droppable == flag, "call {} asked for droppable = {} but the packet is marked {}", p.call as isize, flag, p.droppable),
            None => vensure!(!p.droppable, "a packet returned by call {} is marked droppable although it is not media the application asked to be droppable", p.call as isize),
        }
    }
    // drop subsets
    let droppable: Vec<usize> = all.iter().enumerate().filter(|(_, p)| p.droppable).map(|(i, _)| i).collect();
    let k = droppable.len();
    let (masks, exhaustive) = subsets(k.min(40), c.sample, 8, 64);
    let mut drop_followed = false;
    for mask in &masks {
        if *mask == 0 {
            continue;
        }
        let mut dropped = vec![false; all.len()];
        for (bit, idx) in droppable.iter().enumerate() {
            if bit < 64 && (mask >> bit) & 1 == 1 {
                dropped[*idx] = true;
            }
        }
        let surviving: Vec<&PacketRec> = all.iter().enumerate().filter(|(i, _)| !dropped[*i]).map(|(_, p)| *p).collect();
        let want: Vec<&Msg> = full.iter().filter(|(_, _, pi)| !dropped[*pi]).map(|(m, _, _)| m).collect();
        match decode_all(&surviving) {
            Err(e) => vfail!("after dropping the droppable packets {:?} the remaining packets no longer form a well-formed chunk stream: {}", dropped.iter().enumerate().filter(|(_, d)| **d).map(|(i, _)| i).collect::<Vec<_>>(), e),
            Ok(got) => {
                let same = got.len() == want.len() && got.iter().zip(want.iter()).all(|((g, _, _), w)| g == *w);
                if !same {
                    let first = got.iter().zip(want.iter()).position(|((g, _, _), w)| g != *w);
                    vfail!("after dropping the droppable packets {:?} the surviving messages decode differently (first difference at message {:?}: got {:?} want {:?})", dropped.iter().enumerate().filter(|(_, d)| **d).map(|(i, _)| i).collect::<Vec<_>>(), first, first.map(|i| got[i].0.brief()), first.map(|i| want[i].brief()));
                }
            }
        }
    }
    for (i, (_, csid, pi)) in full.iter().enumerate() {
        if all[*pi].droppable && full.iter().skip(i + 1).any(|(_, c2, _)| c2 == csid) {
            drop_followed = true;
        }
    }
    // did the clock cross a threshold between two outbound messages?
    let mut crossed24 = false;
    let mut crossed32 = false;
    for w in all.windows(2) {
        let (a, b) = (w[0].age, w[1].age);
        if a / T24 == 0 && b / T24 >= 1 {
            crossed24 = true;
        }
        if a / T32 != b / T32 {
            crossed32 = true;
        }
    }
    obs.class(match c.history {
        History::Server(_) => "server-session",
        History::Client(_) => "client-session",
    });
    obs.class_if(crossed24, "clock-crosses-2^24-between-messages");
    obs.class_if(crossed32, "clock-wraps-2^32-between-messages");
    obs.class_if(c.clock.age0 >= T24, "starts-older-than-2^24-ms");
    obs.class_if(k >= 1, "has-droppable-packets");
    obs.class_if(k >= 1 && exhaustive, "all-drop-subsets-enumerated");
    obs.class_if(drop_followed, "droppable-packet-followed-by-traffic-on-its-csid");
    obs.count("packets", all.len() as u64);
    obs.count("messages", full.len() as u64);
    obs.count("drop-subsets-tried", masks.len() as u64);
    obs.nontrivial = crossed24 || crossed32 || drop_followed;
    Verdict::Pass(obs)
}

pub fn clock() -> BoxedStrategy<Clock> {
    let age0 = prop_oneof![
        3 => Just(0u64),
        2 => (0u64..2000).prop_map(|k| T24 - 1000 + k),
        1 => (0u64..2000).prop_map(|k| (1u64 << 31) - 1000 + k),
        2 => (0u64..2000).prop_map(|k| T32 - 1000 + k),
        1 => (0u64..2000).prop_map(|k| T32 + T24 - 1000 + k),
        1 => 0u64..(3 * T32),
    ];
    let jump = prop_oneof![
        2 => 1u64..2000,
        2 => Just(T24),
        1 => Just(T24 - 1),
        2 => Just(T32 - 1),
        2 => Just(T32),
        1 => Just(1u64 << 31),
        1 => 0u64..(2 * T32),
    ];
    (age0, proptest::collection::vec((any::<u16>(), jump), 0..4)).prop_map(|(age0, jumps)| Clock { age0, jumps }).boxed()
}

/// media-heavy server histories: connect, create, play accepted, then many sends
fn server_media_history() -> BoxedStrategy<c09::Case> {
    use c09::{ReqRef, SOp, StreamRef};
    let send = (0u8..3, 0u16..600, crate::gen::edge_u32(), any::<bool>()).prop_map(|(kind, len, ts, drop)| (SOp::SendMedia { stream: StreamRef::Created(0), kind, len, ts, drop }, 0u16));
    let other = (c09::sop(), Just(0u16));
    (proptest::collection::vec(prop_oneof![4 => send, 1 => other], 1..20), prop_oneof![Just(4096u32), Just(128u32), 1u32..300])
        .prop_map(|(mut ops, chunk_size)| {
            let mut pre = vec![
                (SOp::Connect { app: 0, slash: false, enc: 0, tid: 1 }, 0u16),
                (SOp::Accept { req: ReqRef::Outstanding(0) }, 0),
                (SOp::CreateStream { tid: 2 }, 0),
                (SOp::Play { stream: StreamRef::Created(0), key: 0, nargs: 0, start: 0, duration: 0, reset: false }, 0),
                (SOp::Accept { req: ReqRef::Outstanding(0) }, 0),
            ];
            pre.append(&mut ops);
            c09::Case { ops: pre, chunk_size }
        })
        .boxed()
}

fn client_media_history() -> BoxedStrategy<c10::Case> {
    use c10::{COp, TidRef};
    let send = prop_oneof![
        3 => (0u16..600, crate::gen::edge_u32(), any::<bool>()).prop_map(|(len, ts, drop)| COp::PublishAudio { len, ts, drop }),
        3 => (0u16..600, crate::gen::edge_u32(), any::<bool>()).prop_map(|(len, ts, drop)| COp::PublishVideo { len, ts, drop }),
        1 => crate::props::c02::meta().prop_map(|meta| COp::PublishMetadata { meta }),
        1 => Just(COp::SendPing),
    ]
    .prop_map(|o| (o, 0u16, 255u8));
    let other = (c10::cop(), Just(0u16), Just(255u8));
    (proptest::collection::vec(prop_oneof![4 => send, 1 => other], 1..20), prop_oneof![Just(4096u32), Just(128u32), 1u32..300])
        .prop_map(|(mut ops, chunk_size)| {
            let mut pre = vec![
                (COp::RequestConnection { app: 0 }, 0u16, 0u8),
                (COp::Result { tid: TidRef::Outstanding(0), stream: None }, 0, 0),
                (COp::RequestPublishing { key: 1, kind: 0 }, 0, 0),
                (COp::Result { tid: TidRef::Outstanding(0), stream: Some(1) }, 0, 0),
                (COp::OnStatus { kind: 1 }, 0, 0),
            ];
            pre.append(&mut ops);
            c10::Case { ops: pre, chunk_size }
        })
        .boxed()
}

pub fn fuzz_strategy() -> BoxedStrategy<Case> {
    prop_oneof![
        (c09::case_strategy(25), clock(), any::<u32>()).prop_map(|(h, clock, sample)| Case { history: History::Server(h), clock, sample }),
        (c10::case_strategy(25), clock(), any::<u32>()).prop_map(|(h, clock, sample)| Case { history: History::Client(h), clock, sample }),
        (server_media_history(), clock(), any::<u32>()).prop_map(|(h, clock, sample)| Case { history: History::Server(h), clock, sample }),
        (client_media_history(), clock(), any::<u32>()).prop_map(|(h, clock, sample)| Case { history: History::Client(h), clock, sample }),
    ]
    .boxed()
}

pub fn spec() -> PropSpec {
    PropSpec {
        id: "C18",
        level: "fault_enumeration",
        rule: "session histories from the C09 / C10 generators (peer messages, malformed argument lists, application calls) and media-heavy variants (play accepted + many send_audio/video/metadata; publishing + many publish_*), chunk sizes 1..300 / 128 / 4096; a clock script through the hook: initial age in {0, around 2^24, 2^31, 2^32, 2^32+2^24, random up to 3*2^32} and up to 3 jumps of {small, 2^24-1, 2^24, 2^31, 2^32-1, 2^32, random} between operations; fault = drop pattern over the packets marked droppable: ALL 2^k subsets for k <= 8, 64 sampled above. Every packet returned by every public call (constructor included) is recorded in order. Non-trivial = the session clock crosses 2^24 ms or wraps 2^32 ms between two returned packets, or a droppable packet is followed by more traffic on its chunk stream; distinct = distinct case",
        assumptions: vec![
            "uptime is simulated by moving the session's start time into the past (hook verif_shift_clock); the elapsed -> ms -> u32 computation is the library's own",
            "an Err from handle_input ends the history (every caller in the repository closes the connection on it)",
            "user-control messages are not required on message stream 0 (specification: SHOULD); protocol control types 1,2,3,5,6 must be on message stream 0 / chunk stream 2",
            "RefChunkDec(strict) and RefMsg are trusted as transcriptions of the specification",
        ],
        checks: vec![
            PropCheck::new("server-histories", |ctx| (c09::case_strategy(if ctx.tier == Tier::Thorough { 40 } else { 25 }), clock(), any::<u32>()).prop_map(|(h, clock, sample)| Case { history: History::Server(h), clock, sample }).boxed(), 20_000, 500_000, eval),
            PropCheck::new("client-histories", |ctx| (c10::case_strategy(if ctx.tier == Tier::Thorough { 40 } else { 25 }), clock(), any::<u32>()).prop_map(|(h, clock, sample)| Case { history: History::Client(h), clock, sample }).boxed(), 20_000, 500_000, eval),
            PropCheck::new("server-media", |_| (server_media_history(), clock(), any::<u32>()).prop_map(|(h, clock, sample)| Case { history: History::Server(h), clock, sample }).boxed(), 20_000, 500_000, eval),
            PropCheck::new("client-media", |_| (client_media_history(), clock(), any::<u32>()).prop_map(|(h, clock, sample)| Case { history: History::Client(h), clock, sample }).boxed(), 20_000, 500_000, eval),
        ],
    }
}
