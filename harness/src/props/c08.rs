//! C08 — dropping any subset of droppable packets leaves the stream decodable.
//! Fault enumeration: for every generated sequence all 2^k drop subsets (k <= 10) are tried;
//! oracle = RefChunkDec(strict) and the library deserializer on the surviving packets.

use crate::core::*;
use crate::drive::*;
use crate::gen::{self, Partition, SeqCfg};
use crate::refs::chunk::Msg;
use proptest::prelude::*;
use serde::{Deserialize, Serialize};

#[derive(Clone, Debug, Serialize, Deserialize)]
pub struct Case {
    pub seq: Seq,
    /// seeds the subset sample when there are more than 10 droppable packets
    pub sample: u32,
}

pub fn subsets(k: usize, sample: u32, max_exhaustive: usize, samples: usize) -> (Vec<u64>, bool) {
    if k <= max_exhaustive {
        ((0..(1u64 << k)).collect(), true)
    } else {
        let mut v = vec![0u64, (1u64 << k) - 1];
        let mut x = sample as u64 | 1;
        while v.len() < samples {
            x = x.wrapping_mul(6364136223846793005).wrapping_add(1442695040888963407);
            v.push((x >> 11) & ((1u64 << k) - 1));
        }
        (v, false)
    }
}

pub fn eval(case: &Case) -> Verdict {
    let ser = match run_serializer(&case.seq) {
        Ok(s) => s,
        Err(e) => return Verdict::Fail(e),
    };
    let droppable: Vec<usize> = ser.packets.iter().enumerate().filter(|(_, p)| p.1).map(|(i, _)| i).collect();
    let k = droppable.len();
    let (masks, exhaustive) = subsets(k.min(40), case.sample, 10, 256);
    let mut obs = Obs::new();
    let mut follows_dropped = false;
    for mask in &masks {
        let mut dropped = vec![false; ser.packets.len()];
        for (bit, idx) in droppable.iter().enumerate() {
            if bit < 64 && (mask >> bit) & 1 == 1 {
                dropped[*idx] = true;
            }
        }
        let mut stream = Vec::new();
        let mut want: Vec<Msg> = Vec::new();
        for (i, p) in ser.packets.iter().enumerate() {
            if !dropped[i] {
                stream.extend_from_slice(&p.0);
                want.push(ser.expected[i].clone());
            }
        }
        let label = || -> String {
            let d: Vec<usize> = dropped.iter().enumerate().filter(|(_, x)| **x).map(|(i, _)| i).collect();
            format!("after dropping packets {:?} of {}", d, ser.packets.len())
        };
        match ref_decode(true, &stream) {
            Err(e) => vfail!("{}: a conformant decoder fails: {}", label(), e),
            Ok((dec, _)) => {
                let got: Vec<Msg> = dec.iter().map(|d| d.msg.clone()).collect();
                if let Some(d) = first_difference(&got, &want) {
                    vfail!("{}: a conformant decoder reads different messages: {}", label(), d);
                }
                if *mask != 0 {
                    // does a surviving message follow a dropped one on the same chunk stream?
                    let full_csid: Vec<u32> = {
                        // csid of every original packet: derive from the type id like the library documents (observed via the decode of the full stream)
                        Vec::new()
                    };
                    let _ = full_csid;
                }
            }
        }
        let (got, err) = lib_decode(&stream, &Partition::Whole);
        if let Some(e) = err {
            vfail!("{}: library deserializer error after {} messages: {}", label(), got.len(), e);
        }
        if let Some(d) = first_difference(&got, &want) {
            vfail!("{}: library deserializer reads different messages: {}", label(), d);
        }
    }
    // classes: computed on the undropped stream
    let stream: Vec<u8> = ser.packets.iter().flat_map(|p| p.0.iter().copied()).collect();
    if let Ok((dec, _)) = ref_decode(true, &stream) {
        classify_stream(&dec, &mut obs);
        for (i, d) in dec.iter().enumerate() {
            if ser.packets[i].1 {
                // a later message on the same chunk stream exists
                if dec.iter().skip(i + 1).any(|e| e.csid == d.csid) {
                    follows_dropped = true;
                }
                obs.class_if(d.chunks > 1, "multi-chunk-droppable");
            }
        }
    }
    obs.count("drop-subsets-tried", masks.len() as u64);
    obs.class_if(exhaustive && k >= 1, "all-subsets-enumerated");
    obs.class_if(!exhaustive, "subsets-sampled");
    obs.class_if(k >= 3, "three-or-more-droppable");
    obs.class_if(follows_dropped, "survivor-follows-droppable-on-same-csid");
    obs.nontrivial = k >= 1 && follows_dropped;
    Verdict::Pass(obs)
}

pub fn spec() -> PropSpec {
    PropSpec {
        id: "C08",
        level: "fault_enumeration",
        rule: "fault = a drop pattern over the packets returned with can_be_dropped = true. Sequences from the palette generator with droppable probability 0.4 (multi-chunk droppable messages, droppable followed by compressible successors on the same and other chunk streams, chunk-size changes in between); for each sequence ALL 2^k subsets of its k droppable packets are applied when k <= 10, 256 sampled subsets above; each surviving stream must decode to exactly the surviving messages under RefChunkDec(strict) and under the library deserializer. Non-trivial = k >= 1 and a later message shares the chunk stream of a droppable one; distinct = distinct sequence",
        assumptions: vec![
            "RefChunkDec is trusted as the transcription of RTMP 1.0 section 5.3.1",
            "packets not marked droppable are always delivered",
        ],
        checks: vec![
            PropCheck::new("drop-subsets", |ctx| {
                let cfg = SeqCfg { max_ops: if ctx.tier == Tier::Thorough { 16 } else { 10 }, drop_pct: 40, force_pct: 8, chunk_change_pct: 8, len_cap: 1500 };
                (gen::msg_seq(cfg), any::<u32>()).prop_map(|(seq, sample)| Case { seq, sample }).boxed()
            }, 60_000, 1_500_000, eval),
        ],
    }
}
