//! C17 — acknowledgements account for every received byte once the peer sets a window.
//! Oracle: ModelAck, a counter model driven by the layout of the generated inbound stream.

use crate::core::*;
use crate::gen;
use crate::refs::msg::RM;
use crate::sess::*;
use proptest::prelude::*;
use rml_rtmp::sessions::{ClientSession, ClientSessionConfig, ServerSession, ServerSessionConfig};
use serde::{Deserialize, Serialize};

#[derive(Clone, Debug, Serialize, Deserialize)]
pub enum Item {
    Ping(u32),
    UnknownCommand(u8),
    StreamBegin(u32),
    /// Set Peer Bandwidth with limit type 0 hard / 1 soft / 2 dynamic (it concerns what the session
    /// SENDS; it must not touch the window the peer announced for what the session receives)
    PeerBandwidth(u32, u8),
    AckFromPeer(u32),
    /// a well-formed message that makes handle_input return Err while the session stays usable
    /// (client: onStatus without an info object / audio while not playing; server: connect without
    /// an application name); delivered in calls of its own
    Failing(u8),
    /// message with an unknown type id (22) and a body of this many bytes
    Blob(u32),
    /// window re-announcement
    Window(u32),
}

#[derive(Clone, Debug, Serialize, Deserialize)]
pub enum CallSize {
    Zero,
    One,
    WMinus1,
    W,
    WPlus1,
    TwoW,
    N(u32),
}

#[derive(Clone, Debug, Serialize, Deserialize)]
pub struct Case {
    pub server: bool,
    /// the session's OWN configured window (what it announces; must not influence what it
    /// honours): 0 = the default configuration
    #[serde(default)]
    pub own: u32,
    /// preparatory state of the session before the traffic starts: 0 fresh (as configured by
    /// `own`), 1 connected, 2 publishing, 3 playing (default configuration)
    #[serde(default)]
    pub prep: u8,
    pub w: u32,
    pub prefix: Vec<Item>,
    pub body: Vec<Item>,
    pub calls: Vec<CallSize>,
}

fn encode_item(enc: &mut PeerEnc, it: &Item, ts: u32, server: bool) -> Vec<u8> {
    match it {
        Item::Failing(k) => {
            if server {
                enc.send(&command("connect", 1.0, obj(vec![("tcUrl", st("rtmp://x/y"))]), vec![]), 0, ts)
            } else if k % 2 == 0 {
                enc.send(&command("onStatus", 0.0, V::Null, vec![]), 1, ts)
            } else {
                enc.send(&RM::Audio(vec![1, 2, 3, *k]), 1, ts)
            }
        }
        Item::Ping(t) => enc.send(&RM::UserControl(6, vec![*t]), 0, ts),
        Item::UnknownCommand(k) => enc.send(&command(["FCPublish", "releaseStream", "getStreamLength", "_checkbw"][*k as usize % 4], (*k as f64) + 2.0, V::Null, vec![st("abc")]), 0, ts),
        Item::StreamBegin(s) => enc.send(&RM::UserControl(0, vec![*s]), 0, ts),
        Item::PeerBandwidth(v, kind) => enc.send(&RM::PeerBw(*v, *kind % 3), 0, ts),
        Item::AckFromPeer(v) => enc.send(&RM::Ack(*v), 0, ts),
        Item::Blob(n) => enc.raw(22, gen::fill_bytes(*n, *n as usize), 1, ts),
        Item::Window(w) => enc.send(&RM::WindowAck(*w), 0, ts),
    }
}

use crate::refs::amf0::V;

pub fn eval(c: &Case) -> Verdict {
    let w0 = c.w.max(1);
    // the session under test (and the peer encoder in step with it)
    use crate::props::c03::{self, Sess, Target};
    let mut outdec = OutDec::new();
    let (mut sess, mut enc) = if c.prep % 4 == 0 {
        if c.server {
            let (s, init) = match ServerSession::new({ let mut cfg = ServerSessionConfig::new(); if c.own != 0 { cfg.window_ack_size = c.own; } cfg }) {
                Ok(x) => x,
                Err(e) => vfail!("ServerSession::new failed: {:?}", e),
            };
            for (b, d) in split_server(init).packets {
                if let Err(e) = outdec.packet(&b, d) {
                    vfail!("initial server packets undecodable: {}", e);
                }
            }
            (Sess::S(s), PeerEnc::new())
        } else {
            let (s, init) = match ClientSession::new({ let mut cfg = ClientSessionConfig::new(); if c.own != 0 { cfg.window_ack_size = c.own; } cfg }) {
                Ok(x) => x,
                Err(e) => vfail!("ClientSession::new failed: {:?}", e),
            };
            for (b, d) in split_client(init).packets {
                if let Err(e) = outdec.packet(&b, d) {
                    vfail!("initial client packets undecodable: {}", e);
                }
            }
            (Sess::C(s), PeerEnc::new())
        }
    } else {
        let target = if c.server { Target::Server(c.prep % 4) } else { Target::Client(c.prep % 4) };
        match c03::prepare_recording(&target) {
            Ok((s, e, rec)) => {
                for (b, d) in rec {
                    if let Err(e) = outdec.packet(&b, d) {
                        vfail!("packets emitted while the session was prepared are undecodable: {}", e);
                    }
                }
                (s, e)
            }
            Err(e) => return Verdict::Harness(format!("cannot prepare the session: {}", e)),
        }
    };
    // build the inbound stream and remember where each window message ends
    let mut stream: Vec<u8> = Vec::new();
    let mut windows: Vec<(usize, u32)> = Vec::new(); // (offset one past the last byte, W)
    let mut failing: Vec<(usize, usize)> = Vec::new(); // byte spans of the messages answered with Err
    let mut ts = 0u32;
    for it in &c.prefix {
        if let Item::Window(_) = it {
            continue; // the first announcement is the explicit one below
        }
        ts = ts.wrapping_add(10);
        let from = stream.len();
        stream.extend(encode_item(&mut enc, it, ts, c.server));
        if let Item::Failing(_) = it {
            failing.push((from, stream.len()));
        }
    }
    stream.extend(enc.send(&RM::WindowAck(w0), 0, ts));
    windows.push((stream.len(), w0));
    for it in &c.body {
        ts = ts.wrapping_add(10);
        let from = stream.len();
        let bytes = encode_item(&mut enc, it, ts, c.server);
        stream.extend(bytes);
        if let Item::Window(w) = it {
            windows.push((stream.len(), (*w).max(1)));
        }
        if let Item::Failing(_) = it {
            failing.push((from, stream.len()));
        }
    }
    // call boundaries are forced at both ends of every failing message, so that the call which
    // completes it carries nothing else (nothing but a due Acknowledgement can then be lost with the Err)
    let mut forced: Vec<usize> = failing.iter().flat_map(|(a, b)| [*a, *b]).collect();
    forced.sort_unstable();
    // ModelAck
    let mut known: Option<u32> = None;
    let mut counter: u64 = 0;
    let mut acked_total: u64 = 0;
    let mut received_since_known: u64 = 0;
    let mut acks = 0u64;
    let mut non_multiple_call = false;
    let mut pos = 0usize;
    let mut call_idx = 0usize;
    let mut calls_made = 0u64;
    let mut win_idx = 0usize;
    let mut failed_calls = 0u64;
    let mut ack_lost_with_error = false;
    while pos < stream.len() || call_idx < c.calls.len() {
        let cur_w = known.unwrap_or(w0) as usize;
        let size = match c.calls.get(call_idx) {
            Some(CallSize::Zero) => 0,
            Some(CallSize::One) => 1,
            Some(CallSize::WMinus1) => cur_w.saturating_sub(1),
            Some(CallSize::W) => cur_w,
            Some(CallSize::WPlus1) => cur_w + 1,
            Some(CallSize::TwoW) => 2 * cur_w,
            Some(CallSize::N(n)) => *n as usize,
            None => ((stream.len() - pos) / 3).max(1),
        };
        call_idx += 1;
        let mut size = size.min(stream.len() - pos);
        if let Some(b) = forced.iter().find(|b| **b > pos && **b < pos + size) {
            size = *b - pos;
        }
        if pos >= stream.len() && size == 0 && call_idx > c.calls.len() {
            break;
        }
        let completes_failing = size > 0 && failing.iter().any(|(_, e)| *e == pos + size);
        let piece = &stream[pos..pos + size];
        // model: the window known BEFORE this call governs it
        let mut expect: Option<u32> = None;
        if let Some(w) = known {
            counter += size as u64;
            received_since_known += size as u64;
            if counter >= w as u64 {
                expect = Some(counter as u32);
                acked_total += counter;
                counter = 0;
            }
            if size as u64 % w as u64 != 0 {
                non_multiple_call = true;
            }
        }
        // implementation
        let mut call_failed = false;
        let packets = match &mut sess {
            Sess::S(s) => match s.handle_input(piece) {
                Ok(r) => split_server(r).packets,
                Err(_) if completes_failing => {
                    call_failed = true;
                    Vec::new()
                }
                Err(e) => vfail!("server handle_input failed on valid traffic: {:?}", e),
            },
            Sess::C(s) => match s.handle_input(piece) {
                Ok(r) => split_client(r).packets,
                Err(_) if completes_failing => {
                    call_failed = true;
                    Vec::new()
                }
                Err(e) => vfail!("client handle_input failed on valid traffic: {:?}", e),
            },
        };
        calls_made += 1;
        if call_failed {
            failed_calls += 1;
            if expect.is_some() {
                // the Acknowledgement due in this call was given to the serializer and is lost with
                // the Err (the API returns nothing): the outbound stream is no longer decodable by
                // construction and every caller closes the connection; the case ends here
                ack_lost_with_error = true;
                break;
            }
            // no Acknowledgement was due: nothing was lost, the bytes of this call still count
            pos += size;
            while win_idx < windows.len() && windows[win_idx].0 <= pos {
                known = Some(windows[win_idx].1);
                win_idx += 1;
            }
            continue;
        }
        let mut seen: Vec<u32> = Vec::new();
        for (b, d) in packets {
            match outdec.packet(&b, d) {
                Ok(msgs) => {
                    for m in msgs {
                        if m.dec.msg.type_id == 3 {
                            match m.rm {
                                Ok(RM::Ack(v)) => {
                                    vensure!(m.dec.msg.msid == 0, "Acknowledgement sent on message stream {}", m.dec.msg.msid);
                                    seen.push(v)
                                }
                                other => vfail!("malformed Acknowledgement body: {:?}", other),
                            }
                        }
                    }
                }
                Err(e) => vfail!("outbound packet undecodable: {}", e),
            }
        }
        let where_ = format!("call {} (bytes {}..{} of {}, W={:?})", calls_made, pos, pos + size, stream.len(), known);
        match (expect, seen.as_slice()) {
            (None, []) => {}
            (Some(v), [got]) => {
                vensure!(*got == v, "{}: Acknowledgement reports {} but {} bytes were received since the last one", where_, got, v);
                acks += 1;
            }
            (None, got) => vfail!("{}: unexpected Acknowledgement(s) {:?} (only {} of {:?} bytes outstanding)", where_, got, counter, known),
            (Some(v), got) => vfail!("{}: expected exactly one Acknowledgement({}) but saw {:?}", where_, v, got),
        }
        pos += size;
        // window messages completed by this call take effect for the following calls
        while win_idx < windows.len() && windows[win_idx].0 <= pos {
            known = Some(windows[win_idx].1);
            win_idx += 1;
        }
        // derived invariants
        if let Some(w) = known {
            vensure!(acked_total + counter == received_since_known, "conservation broken: acknowledged {} + outstanding {} != received {}", acked_total, counter, received_since_known);
            // fewer than W outstanding after every call - unless the window just shrank below the outstanding count in this very call (then the next call acknowledges)
            let just_changed = win_idx > 0 && windows[win_idx - 1].0 > pos - size && windows[win_idx - 1].0 <= pos;
            vensure!(counter < w as u64 || just_changed, "{} bytes outstanding after a call although W = {}", counter, w);
        }
    }
    let mut obs = Obs::new();
    obs.class_if(c.server, "server-session");
    obs.class_if(!c.server, "client-session");
    obs.class_if(windows.len() > 1, "window-re-announced");
    obs.class_if(acks >= 2, "two-or-more-acks");
    obs.class_if(w0 <= 64, "small-window");
    obs.class_if(w0 >= 65_535, "large-window");
    obs.class_if(w0 >= 0x7FFF_FFFF, "window-at-or-above-2^31-1");
    obs.class_if(failed_calls > 0, "call-answered-with-err-and-history-continued");
    obs.class_if(ack_lost_with_error, "ended-at-err-in-a-call-that-owed-an-acknowledgement");
    obs.count("acknowledgements", acks);
    obs.count("calls", calls_made);
    obs.nontrivial = acks >= 2 && non_multiple_call;
    Verdict::Pass(obs)
}

fn item(w: u32) -> BoxedStrategy<Item> {
    // windows beyond what a case can fill (> 20 MB) get small traffic: no acknowledgement is due
    let blob_max = if w > 20_000_000 { 4_000 } else { (w / 2).clamp(40, 3_000_000) };
    prop_oneof![
        3 => any::<u32>().prop_map(Item::Ping),
        2 => any::<u8>().prop_map(Item::UnknownCommand),
        1 => any::<u32>().prop_map(Item::StreamBegin),
        1 => (prop_oneof![any::<u32>(), 1u32..300, Just(w / 2 + 1), Just(w.saturating_mul(3))], 0u8..3).prop_map(|(v, k)| Item::PeerBandwidth(v, k)),
        1 => any::<u8>().prop_map(Item::Failing),
        1 => any::<u32>().prop_map(Item::AckFromPeer),
        3 => (1u32..blob_max + 1).prop_map(Item::Blob),
    ]
    .boxed()
}

fn call_size() -> BoxedStrategy<CallSize> {
    prop_oneof![
        1 => Just(CallSize::Zero),
        2 => Just(CallSize::One),
        2 => Just(CallSize::WMinus1),
        2 => Just(CallSize::W),
        2 => Just(CallSize::WPlus1),
        1 => Just(CallSize::TwoW),
        4 => (1u32..40).prop_map(CallSize::N),
        1 => (40u32..400).prop_map(CallSize::N),
        1 => (400u32..100_000).prop_map(CallSize::N),
    ]
    .boxed()
}

pub fn fuzz_strategy() -> BoxedStrategy<Case> {
    case_for_w(prop_oneof![3 => 1u32..70, 2 => gen::pick(&[100u32, 127, 128, 129, 255, 256, 4096, 65_535]), 1 => gen::pick(&[0x7FFF_FFFFu32, 0x8000_0000, 0xFFFF_FFFF])].boxed())
}

fn case_for_w(wstrat: BoxedStrategy<u32>) -> BoxedStrategy<Case> {
    (any::<bool>(), wstrat)
        .prop_flat_map(|(server, w)| {
            let rean = prop_oneof![1 => Just(w), 2 => 1u32..200, 1 => (1u32..5).prop_map(move |k| w.saturating_mul(k).max(1)), 1 => gen::pick(&[1u32, 2, 127, 128, 4096])].prop_map(Item::Window);
            let body_item = prop_oneof![12 => item(w), 1 => rean];
            (
                Just(server),
                prop_oneof![3 => Just(0u32), 1 => Just(w), 1 => Just((w / 2).max(1)), 1 => Just(w.saturating_mul(2)), 1 => gen::pick(&[1u32, 100, 1000, 65_536])],
                prop_oneof![2 => Just(0u8), 1 => 1u8..4],
                Just(w),
                proptest::collection::vec(item(w.min(400)), 0..4),
                proptest::collection::vec(body_item, 2..30),
                proptest::collection::vec(call_size(), 0..60),
            )
        })
        .prop_map(|(server, own, prep, w, prefix, body, calls)| Case { server, own, prep, w, prefix, body, calls })
        .boxed()
}

pub fn spec() -> PropSpec {
    PropSpec {
        id: "C17",
        level: "exploration",
        rule: "both session kinds; W: every value 1..=64 (enumerated, several generated streams each), then a pool {100, 127, 128, 129, 255, 4096, 65535, 65536, 1000000, 2^24 (thorough)}, random values, and large windows {2^31-1, 2^31, 2^31+1, 3*10^9, 2^32-2, 2^32-1, any u32} for which no acknowledgement may appear; the session fresh (with its OWN configured window varied: default, W, W/2, 2W, small) or prepared as connected / publishing / playing; a valid inbound stream from the reference peer encoder (pings, unknown commands, user-control, Set Peer Bandwidth with limit types 0..2 and values relative to W, peer acknowledgements, unknown-type blobs sized relative to W, and well-formed messages answered with Err, delivered in calls of their own - the history goes on unless that call owed an acknowledgement) with the Window Acknowledgement Size message after a generated prefix and re-announcements later; call sizes from {0, 1, W-1, W, W+1, 2W, random}. ModelAck predicts per call whether an Acknowledgement appears and its value. Non-trivial = >= 2 acknowledgements and a call whose size is not a multiple of W; distinct = distinct case",
        assumptions: vec![
            "ModelAck (from the statement): the window learned in a call governs the FOLLOWING calls; each call adds its length; reaching W => exactly one Acknowledgement carrying the count, count := 0; a re-announcement replaces W and does not reset the count",
            "W = 0 is outside the statement; W near 2^32 needs ~4 GiB per case and is sampled only up to 2^24",
            "'fewer than W outstanding after every call' is not asserted in the one call that shrinks W below the outstanding count (the next call acknowledges)",
        ],
        checks: vec![
            EnumCheck::new("small-windows-1-to-64", true, |ctx| {
                let per = if ctx.tier == Tier::Thorough { 1500 } else { 150 };
                let mut v = Vec::new();
                for w in 1..=64u32 {
                    let s = case_for_w(Just(w).boxed());
                    v.extend(sample_strategy(&s, per, mix_seed(ctx.seed, &["C17", "small"], w as u64)));
                }
                v
            }, eval),
            PropCheck::new("window-pool", |ctx| {
                let pool: &'static [u32] = if ctx.tier == Tier::Thorough { &[100, 127, 128, 129, 255, 256, 4096, 65_535, 65_536, 1_000_000, 16_777_216] } else { &[100, 127, 128, 129, 255, 256, 4096, 65_535, 65_536, 1_000_000] };
                // large windows (no acknowledgement may appear at all in these short streams) exercise
                // the comparison at magnitudes where signed / wrapping arithmetic would misbehave
                case_for_w(prop_oneof![6 => gen::pick(pool), 2 => 1u32..100_000, 2 => gen::pick(&[0x7FFF_FFFFu32, 0x8000_0000, 0x8000_0001, 0x8000_1000, 3_000_000_000, 0xFFFF_FFFE, 0xFFFF_FFFF]), 1 => any::<u32>().prop_map(|w| w.max(1))].boxed())
            }, 30_000, 600_000, eval),
        ],
    }
}
