pub mod c20;

use crate::core::PropSpec;

pub fn all_specs() -> Vec<PropSpec> {
    vec![c20::spec()]
}

pub fn spec_for(id: &str) -> Option<PropSpec> {
    all_specs().into_iter().find(|s| s.id == id)
}
