pub mod c01;
pub mod c02;
pub mod c03;
pub mod c04;
pub mod c05;
pub mod c06;
pub mod c07;
pub mod c08;
pub mod c09;
pub mod c10;
pub mod c11;
pub mod c12;
pub mod c13;
pub mod c14;
pub mod c15;
pub mod c16;
pub mod c17;
pub mod c18;
pub mod c19;
pub mod c20;

use crate::core::PropSpec;

pub fn all_specs() -> Vec<PropSpec> {
    vec![c01::spec(), c02::spec(), c03::spec(), c04::spec(), c05::spec(), c06::spec(), c07::spec(), c08::spec(), c09::spec(), c10::spec(), c11::spec(), c12::spec(), c13::spec(), c14::spec(), c15::spec(), c16::spec(), c17::spec(), c18::spec(), c19::spec(), c20::spec()]
}

pub fn spec_for(id: &str) -> Option<PropSpec> {
    all_specs().into_iter().find(|s| s.id == id)
}
