//! C03 — no network input can panic, overflow, hang or exhaust memory.
//! Three generators (raw / mutated bytes, well-framed messages with arbitrary bodies and argument
//! lists interleaved with application calls, adversarial chunk headers), five targets (handshake,
//! chunk deserializer, message decoder, server session, client session — the sessions in four
//! preparatory states), one oracle: every call returns, nothing unwinds (overflow checks are on),
//! peak heap stays within 256 x bytes fed + 17 MiB, and the worker's watchdog does not fire.

use crate::core::*;
use crate::drive::*;
use crate::gen::{self, AmfCfg, Partition};
use crate::isolate::IsoCheck;
use crate::props::c15;
use crate::refs::amf0::V;
use crate::refs::msg::RM;
use crate::refs::sha::{self, Role, Scheme};
use crate::sess::*;
use bytes::Bytes;
use proptest::prelude::*;
use rml_rtmp::chunk_io::ChunkDeserializer;
use rml_rtmp::handshake::{Handshake, HandshakeProcessResult};
use rml_rtmp::messages::MessagePayload;
use rml_rtmp::sessions::*;
use rml_rtmp::time::RtmpTimestamp;
use serde::{Deserialize, Serialize};
use std::sync::Arc;
use std::time::Duration;

pub const CMD_NAMES: &[&str] = &["connect", "createStream", "publish", "play", "closeStream", "deleteStream", "_result", "_error", "onStatus", "@setDataFrame", "onMetaData", "releaseStream", "FCPublish", "unknownCommand", ""];

#[derive(Clone, Debug, Serialize, Deserialize)]
pub enum AppCall {
    /// server: accept_request / reject_request
    Accept(u32),
    Reject(u32),
    SendAudio { stream: u32, len: u16, ts: u32, drop: bool },
    SendVideo { stream: u32, len: u16, ts: u32, drop: bool },
    SendMetadata { stream: u32 },
    FinishPlaying(u32),
    SendPing,
    /// client
    RequestConnection,
    RequestPlayback,
    RequestPublishing,
    StopPlayback,
    StopPublishing,
    PublishAudio { len: u16, ts: u32, drop: bool },
    PublishVideo { len: u16, ts: u32, drop: bool },
    PublishMetadata,
}

#[derive(Clone, Debug, Serialize, Deserialize)]
pub enum FItem {
    Raw { type_id: u8, body: Vec<u8>, msid: u32 },
    Cmd { name: u8, tid: u64, obj: V, args: Vec<V>, msid: u32, amf3: u8 },
    Data { values: Vec<V>, msid: u32, amf3: bool },
    /// a valid message body cut short
    Truncated { msg: RM, keep: u16, msid: u32 },
    SetChunkSize(u32),
    WindowAck(u32),
    PeerBandwidth(u32, u8),
    UserControl { event: u16, fields: Vec<u32> },
    App(AppCall),
}

#[derive(Clone, Debug, Serialize, Deserialize)]
pub struct HChunk {
    pub fmt: u8,
    /// low 6 bits of the first byte (0 and 1 select the 2- and 3-byte forms)
    pub cs: u8,
    pub cs_extra: [u8; 2],
    pub ts24: u32,
    pub len24: u32,
    pub type_id: u8,
    pub msid: u32,
    pub ext: u32,
    /// 0 = extended field exactly when ts24 == 0xFFFFFF, 1 = never, 2 = always
    pub ext_mode: u8,
    pub payload: u16,
    pub fill: u32,
}

#[derive(Clone, Debug, Serialize, Deserialize)]
pub enum Input {
    Raw(Vec<u8>),
    Framed(Vec<(FItem, u16)>),
    Headers(Vec<HChunk>),
    Mutated { source: c15::Source, mutations: Vec<c15::Mutation> },
    /// a valid handshake packet 0+1 (+ packet 2) from the reference peer, mutated
    HandshakeBytes { digest: bool, offset: u16, fill: u64, flips: Vec<(u16, u8)>, extra: u16 },
}

#[derive(Clone, Debug, Serialize, Deserialize, PartialEq)]
pub enum Target {
    Deserializer,
    MessageDecoder,
    /// preparatory state: 0 fresh, 1 connected, 2 publishing, 3 playing
    Server(u8),
    Client(u8),
    Handshake(Role),
}

#[derive(Clone, Debug, Serialize, Deserialize)]
pub struct Case {
    pub target: Target,
    pub input: Input,
    pub partition: Partition,
}

fn hchunk_bytes(h: &HChunk, out: &mut Vec<u8>) {
    out.push((h.fmt << 6) | (h.cs & 0x3F));
    match h.cs & 0x3F {
        0 => out.push(h.cs_extra[0]),
        1 => out.extend_from_slice(&h.cs_extra),
        _ => {}
    }
    let u24 = |o: &mut Vec<u8>, v: u32| o.extend_from_slice(&[(v >> 16) as u8, (v >> 8) as u8, v as u8]);
    if h.fmt <= 2 {
        u24(out, h.ts24 & 0xFF_FFFF);
    }
    if h.fmt <= 1 {
        u24(out, h.len24 & 0xFF_FFFF);
        out.push(h.type_id);
    }
    if h.fmt == 0 {
        out.extend_from_slice(&h.msid.to_le_bytes());
    }
    let ext = match h.ext_mode % 3 {
        0 => h.fmt <= 2 && (h.ts24 & 0xFF_FFFF) == 0xFF_FFFF,
        1 => false,
        _ => true,
    };
    if ext {
        out.extend_from_slice(&h.ext.to_be_bytes());
    }
    out.extend(gen::fill_bytes(h.fill, h.payload as usize));
}

/// Encodes one framed item as the reference peer would send it.
pub fn fitem_bytes(enc: &mut PeerEnc, it: &FItem, ts: u32) -> Option<Vec<u8>> {
    Some(match it {
        FItem::Raw { type_id, body, msid } => {
            if *type_id == 1 {
                // a raw type-1 body would desynchronise OUR encoder's chunk size from the peer's
                // view only if it parses; send it on the wire as is (the session decides)
                enc.raw(1, body.clone(), *msid, ts)
            } else {
                enc.raw(*type_id, body.clone(), *msid, ts)
            }
        }
        FItem::Cmd { name, tid, obj, args, msid, amf3 } => {
            let rm = RM::Command(crate::refs::amf0::S::lit(CMD_NAMES[*name as usize % CMD_NAMES.len()]), *tid, obj.clone(), args.clone());
            let mut body = rm.body().ok()?;
            match amf3 % 3 {
                0 => enc.raw(20, body, *msid, ts),
                1 => enc.raw(17, body, *msid, ts),
                _ => {
                    body.insert(0, 0);
                    enc.raw(17, body, *msid, ts)
                }
            }
        }
        FItem::Data { values, msid, amf3 } => {
            let body = RM::Data(values.clone()).body().ok()?;
            enc.raw(if *amf3 { 15 } else { 18 }, body, *msid, ts)
        }
        FItem::Truncated { msg, keep, msid } => {
            let mut body = msg.body().ok()?;
            let k = ((*keep as usize) * (body.len() + 1)) >> 16;
            body.truncate(k);
            enc.raw(msg.type_id(), body, *msid, ts)
        }
        FItem::SetChunkSize(n) => {
            // the session will apply (or refuse) it; keep our encoder in step only for legal sizes
            let bytes = enc.raw(1, n.to_be_bytes().to_vec(), 0, ts);
            if *n >= 1 && *n <= 0x7FFF_FFFF {
                enc.enc.chunk_size = *n as usize;
            }
            bytes
        }
        FItem::WindowAck(n) => enc.raw(5, n.to_be_bytes().to_vec(), 0, ts),
        FItem::PeerBandwidth(n, l) => {
            let mut b = n.to_be_bytes().to_vec();
            b.push(*l);
            enc.raw(6, b, 0, ts)
        }
        FItem::UserControl { event, fields } => {
            let mut b = event.to_be_bytes().to_vec();
            for f in fields {
                b.extend_from_slice(&f.to_be_bytes());
            }
            enc.raw(4, b, 0, ts)
        }
        FItem::App(_) => return None,
    })
}

pub enum Sess {
    S(ServerSession),
    C(ClientSession),
}

pub fn prepare(target: &Target) -> Result<(Sess, PeerEnc), String> {
    prepare_recording(target).map(|(s, e, _)| (s, e))
}

/// Like `prepare`, also returning every packet the session emitted while being prepared
/// (constructor included), so an observer can be primed with them.
pub fn prepare_recording(target: &Target) -> Result<(Sess, PeerEnc, Vec<(Vec<u8>, bool)>), String> {
    let mut rec: Vec<(Vec<u8>, bool)> = Vec::new();
    let (s, e) = prepare_inner(target, &mut rec)?;
    Ok((s, e, rec))
}

fn prepare_inner(target: &Target, rec: &mut Vec<(Vec<u8>, bool)>) -> Result<(Sess, PeerEnc), String> {
    let mut enc = PeerEnc::new();
    match target {
        Target::Server(prep) => {
            let (mut s, init) = ServerSession::new(ServerSessionConfig::new()).map_err(|e| format!("ServerSession::new: {:?}", e))?;
            rec.extend(split_server(init).packets);
            let mut ids: Vec<u32> = Vec::new();
            let mut feed = |s: &mut ServerSession, b: Vec<u8>, ids: &mut Vec<u32>, rec: &mut Vec<(Vec<u8>, bool)>| -> Result<(), String> {
                let out = split_server(s.handle_input(&b).map_err(|e| format!("preparation failed: {:?}", e))?);
                rec.extend(out.packets);
                for e in out.events {
                    match e {
                        ServerSessionEvent::ConnectionRequested { request_id, .. } | ServerSessionEvent::PublishStreamRequested { request_id, .. } | ServerSessionEvent::PlayStreamRequested { request_id, .. } => ids.push(request_id),
                        _ => {}
                    }
                }
                Ok(())
            };
            if *prep >= 1 {
                feed(&mut s, enc.send(&command("connect", 1.0, obj(vec![("app", st("live"))]), vec![]), 0, 0), &mut ids, rec)?;
                rec.extend(split_server(s.accept_request(ids.pop().ok_or("no connect request")?).map_err(|e| format!("{:?}", e))?).packets);
                feed(&mut s, enc.send(&command("createStream", 2.0, V::Null, vec![]), 0, 0), &mut ids, rec)?;
            }
            if *prep == 2 {
                feed(&mut s, enc.send(&command("publish", 0.0, V::Null, vec![st("key"), st("live")]), 1, 0), &mut ids, rec)?;
                rec.extend(split_server(s.accept_request(ids.pop().ok_or("no publish request")?).map_err(|e| format!("{:?}", e))?).packets);
            } else if *prep == 3 {
                feed(&mut s, enc.send(&command("play", 0.0, V::Null, vec![st("key")]), 1, 0), &mut ids, rec)?;
                rec.extend(split_server(s.accept_request(ids.pop().ok_or("no play request")?).map_err(|e| format!("{:?}", e))?).packets);
            }
            Ok((Sess::S(s), enc))
        }
        Target::Client(prep) => {
            let (mut c, init) = ClientSession::new(ClientSessionConfig::new()).map_err(|e| format!("ClientSession::new: {:?}", e))?;
            rec.extend(split_client(init).packets);
            let one = |r: Result<ClientSessionResult, ClientSessionError>, rec: &mut Vec<(Vec<u8>, bool)>| -> Result<(), String> {
                rec.extend(split_client(vec![r.map_err(|e| format!("{:?}", e))?]).packets);
                Ok(())
            };
            let many = |r: Result<Vec<ClientSessionResult>, ClientSessionError>, rec: &mut Vec<(Vec<u8>, bool)>| -> Result<(), String> {
                rec.extend(split_client(r.map_err(|e| format!("{:?}", e))?).packets);
                Ok(())
            };
            if *prep >= 1 {
                one(c.request_connection("live".to_string()), rec)?;
                many(c.handle_input(&enc.send(&command("_result", 1.0, V::Null, vec![obj(vec![("code", st("NetConnection.Connect.Success"))])]), 0, 0)), rec)?;
            }
            if *prep == 2 {
                one(c.request_publishing("key".to_string(), PublishRequestType::Live), rec)?;
                many(c.handle_input(&enc.send(&command("_result", 2.0, V::Null, vec![num(1.0)]), 0, 0)), rec)?;
                many(c.handle_input(&enc.send(&command("onStatus", 0.0, V::Null, vec![obj(vec![("code", st("NetStream.Publish.Start"))])]), 1, 0)), rec)?;
            } else if *prep == 3 {
                one(c.request_playback("key".to_string()), rec)?;
                many(c.handle_input(&enc.send(&command("_result", 2.0, V::Null, vec![num(1.0)]), 0, 0)), rec)?;
                many(c.handle_input(&enc.send(&command("onStatus", 0.0, V::Null, vec![obj(vec![("code", st("NetStream.Play.Start"))])]), 1, 0)), rec)?;
            }
            Ok((Sess::C(c), enc))
        }
        _ => Err("not a session target".to_string()),
    }
}

#[derive(Default)]
struct Tally {
    fed: usize,
    calls: u64,
    ok_calls: u64,
    err_calls: u64,
    messages: u64,
    events: u64,
    app_ok: u64,
    app_err: u64,
}

fn feed_session(s: &mut Sess, bytes: &[u8], t: &mut Tally) {
    t.fed += bytes.len();
    t.calls += 1;
    match s {
        Sess::S(x) => match x.handle_input(bytes) {
            Ok(r) => {
                t.ok_calls += 1;
                t.events += r.len() as u64;
            }
            Err(_) => t.err_calls += 1,
        },
        Sess::C(x) => match x.handle_input(bytes) {
            Ok(r) => {
                t.ok_calls += 1;
                t.events += r.len() as u64;
            }
            Err(_) => t.err_calls += 1,
        },
    }
}

fn app_call(s: &mut Sess, a: &AppCall, t: &mut Tally) {
    let data = |len: u16, ts: u32| Bytes::from(gen::fill_bytes(ts, len as usize));
    let ok = match (s, a) {
        (Sess::S(x), AppCall::Accept(id)) => x.accept_request(*id).is_ok(),
        (Sess::S(x), AppCall::Reject(id)) => x.reject_request(*id, "code", "description").is_ok(),
        (Sess::S(x), AppCall::SendAudio { stream, len, ts, drop }) => x.send_audio_data(*stream, data(*len, *ts), RtmpTimestamp::new(*ts), *drop).is_ok(),
        (Sess::S(x), AppCall::SendVideo { stream, len, ts, drop }) => x.send_video_data(*stream, data(*len, *ts), RtmpTimestamp::new(*ts), *drop).is_ok(),
        (Sess::S(x), AppCall::SendMetadata { stream }) => x.send_metadata(*stream, &StreamMetadata::new()).is_ok(),
        (Sess::S(x), AppCall::FinishPlaying(id)) => x.finish_playing(*id).is_ok(),
        (Sess::S(x), AppCall::SendPing) => x.send_ping_request().is_ok(),
        (Sess::C(x), AppCall::RequestConnection) => x.request_connection("app".to_string()).is_ok(),
        (Sess::C(x), AppCall::RequestPlayback) => x.request_playback("k".to_string()).is_ok(),
        (Sess::C(x), AppCall::RequestPublishing) => x.request_publishing("k".to_string(), PublishRequestType::Record).is_ok(),
        (Sess::C(x), AppCall::StopPlayback) => x.stop_playback().is_ok(),
        (Sess::C(x), AppCall::StopPublishing) => x.stop_publishing().is_ok(),
        (Sess::C(x), AppCall::PublishAudio { len, ts, drop }) => x.publish_audio_data(data(*len, *ts), RtmpTimestamp::new(*ts), *drop).is_ok(),
        (Sess::C(x), AppCall::PublishVideo { len, ts, drop }) => x.publish_video_data(data(*len, *ts), RtmpTimestamp::new(*ts), *drop).is_ok(),
        (Sess::C(x), AppCall::PublishMetadata) => x.publish_metadata(&StreamMetadata::new()).is_ok(),
        (Sess::C(x), AppCall::SendPing) => x.send_ping_request().is_ok(),
        _ => return, // call of the other session kind: skipped
    };
    if ok {
        t.app_ok += 1;
    } else {
        t.app_err += 1;
    }
}

/// Builds the byte stream of an unframed input (everything except Framed for sessions).
pub fn flat_bytes(input: &Input) -> Vec<u8> {
    match input {
        Input::Raw(b) => b.clone(),
        Input::Headers(hs) => {
            let mut out = Vec::new();
            for h in hs {
                hchunk_bytes(h, &mut out);
            }
            out
        }
        Input::Mutated { source, mutations } => {
            let mut s = c15::build_stream(source);
            c15::mutate(&mut s, mutations);
            s
        }
        Input::Framed(items) => {
            let mut enc = PeerEnc::new();
            let mut out = Vec::new();
            for (i, (it, _)) in items.iter().enumerate() {
                if let Some(b) = fitem_bytes(&mut enc, it, i as u32 * 20) {
                    out.extend(b);
                }
            }
            out
        }
        Input::HandshakeBytes { digest, offset, fill, flips, extra } => {
            let (p1, _) = crate::props::c11::peer_p1(Role::Client, if *digest { Some(Scheme::At8) } else { None }, *offset as usize, false, 0, *fill, 0);
            let mut out = vec![3u8];
            out.extend_from_slice(&p1);
            let mut p2 = vec![0u8; sha::PACKET];
            sha::prng_fill(*fill ^ 99, &mut p2);
            out.extend_from_slice(&p2);
            out.extend(gen::fill_bytes(*fill as u32, *extra as usize));
            for (pos, x) in flips {
                let i = ((*pos as usize) * out.len()) >> 16;
                out[i] ^= *x | 1;
            }
            out
        }
    }
}

pub fn eval(c: &Case) -> Verdict {
    let mut t = Tally::default();
    let mut obs = Obs::new();
    // inputs are built outside the measured region
    let flat = match (&c.target, &c.input) {
        (Target::Server(_), Input::Framed(_)) | (Target::Client(_), Input::Framed(_)) => Vec::new(),
        _ => flat_bytes(&c.input),
    };
    let ((), peak) = crate::alloc::measure(|| match &c.target {
        Target::Deserializer => {
            let mut de = ChunkDeserializer::new();
            let mut out = Vec::new();
            for piece in c.partition.pieces(&flat) {
                t.fed += piece.len();
                t.calls += 1;
                match lib_feed(&mut de, piece, &mut out) {
                    None => t.ok_calls += 1,
                    Some(_) => {
                        t.err_calls += 1;
                    }
                }
            }
            t.messages = out.len() as u64;
        }
        Target::MessageDecoder => {
            // the bytes are (type id, body) pairs: first byte type id, two bytes length, body
            let mut pos = 0usize;
            while pos + 3 <= flat.len() {
                let type_id = flat[pos];
                let n = ((flat[pos + 1] as usize) << 8 | flat[pos + 2] as usize).min(flat.len() - pos - 3);
                let body = &flat[pos + 3..pos + 3 + n];
                pos += 3 + n;
                t.fed += n + 3;
                t.calls += 1;
                let p = MessagePayload { timestamp: RtmpTimestamp::new(0), type_id, message_stream_id: 0, data: Bytes::from(body.to_vec()) };
                match p.to_rtmp_message() {
                    Ok(_) => t.ok_calls += 1,
                    Err(_) => t.err_calls += 1,
                }
            }
        }
        Target::Handshake(role) => {
            let mut h = Handshake::new(crate::props::c11::peer_type(*role));
            for piece in c.partition.pieces(&flat) {
                t.fed += piece.len();
                t.calls += 1;
                match h.process_bytes(piece) {
                    Ok(HandshakeProcessResult::InProgress { .. }) => t.ok_calls += 1,
                    Ok(HandshakeProcessResult::Completed { .. }) => {
                        t.ok_calls += 1;
                        t.messages += 1;
                    }
                    Err(_) => t.err_calls += 1,
                }
            }
        }
        Target::Server(_) | Target::Client(_) => {
            let (mut s, mut enc) = match prepare(&c.target) {
                Ok(x) => x,
                Err(_) => return,
            };
            match &c.input {
                Input::Framed(items) => {
                    for (i, (it, cut)) in items.iter().enumerate() {
                        match it {
                            FItem::App(a) => app_call(&mut s, a, &mut t),
                            other => {
                                if let Some(bytes) = fitem_bytes(&mut enc, other, i as u32 * 20) {
                                    let at = ((*cut as usize) * (bytes.len() + 1)) >> 16;
                                    if at == 0 || at >= bytes.len() {
                                        feed_session(&mut s, &bytes, &mut t);
                                    } else {
                                        feed_session(&mut s, &bytes[..at], &mut t);
                                        feed_session(&mut s, &bytes[at..], &mut t);
                                    }
                                }
                            }
                        }
                    }
                }
                _ => {
                    for piece in c.partition.pieces(&flat) {
                        feed_session(&mut s, piece, &mut t);
                    }
                }
            }
        }
    });
    let bound = 256 * t.fed + (17 << 20);
    vensure!(peak <= bound, "peak heap {} bytes after {} input bytes exceeds 256 x input + 17 MiB = {}", peak, t.fed, bound);
    obs.class(match &c.target {
        Target::Deserializer => "target-deserializer",
        Target::MessageDecoder => "target-message-decoder",
        Target::Server(0) => "target-server-fresh",
        Target::Server(1) => "target-server-connected",
        Target::Server(2) => "target-server-publishing",
        Target::Server(_) => "target-server-playing",
        Target::Client(0) => "target-client-fresh",
        Target::Client(1) => "target-client-connected",
        Target::Client(2) => "target-client-publishing",
        Target::Client(_) => "target-client-playing",
        Target::Handshake(_) => "target-handshake",
    });
    obs.class(match &c.input {
        Input::Raw(_) => "input-raw-bytes",
        Input::Framed(_) => "input-well-framed-arbitrary-bodies",
        Input::Headers(_) => "input-adversarial-headers",
        Input::Mutated { .. } => "input-mutated-valid-stream",
        Input::HandshakeBytes { .. } => "input-mutated-handshake",
    });
    obs.class_if(t.err_calls > 0, "some-call-returned-err");
    obs.class_if(t.ok_calls > 0 && t.err_calls > 0, "ok-and-err-calls-mixed");
    obs.class_if(t.app_err > 0, "application-call-refused");
    obs.count("calls", t.calls);
    obs.count("calls-returning-err", t.err_calls);
    obs.count("bytes-fed", t.fed as u64);
    obs.count("results-or-messages", t.events + t.messages);
    obs.count("peak-heap-bytes", peak as u64);
    // non-trivial: the input drove the target past the first message / produced results, or an
    // error arose after some successful progress
    obs.nontrivial = t.events + t.messages >= 1 || (t.ok_calls >= 1 && t.err_calls >= 1) || t.ok_calls >= 2;
    Verdict::Pass(obs)
}

// ------------------------------------------------------------------------------------------------
// generators

fn app_call_strategy() -> BoxedStrategy<AppCall> {
    let id = || prop_oneof![4 => 0u32..6, 1 => any::<u32>()];
    let sid = || prop_oneof![4 => 0u32..4, 1 => any::<u32>()];
    prop_oneof![
        6 => id().prop_map(AppCall::Accept),
        2 => id().prop_map(AppCall::Reject),
        1 => (sid(), 0u16..300, any::<u32>(), any::<bool>()).prop_map(|(stream, len, ts, drop)| AppCall::SendAudio { stream, len, ts, drop }),
        1 => (sid(), 0u16..300, any::<u32>(), any::<bool>()).prop_map(|(stream, len, ts, drop)| AppCall::SendVideo { stream, len, ts, drop }),
        1 => sid().prop_map(|stream| AppCall::SendMetadata { stream }),
        1 => sid().prop_map(AppCall::FinishPlaying),
        1 => Just(AppCall::SendPing),
        2 => Just(AppCall::RequestConnection),
        2 => Just(AppCall::RequestPlayback),
        2 => Just(AppCall::RequestPublishing),
        1 => Just(AppCall::StopPlayback),
        1 => Just(AppCall::StopPublishing),
        1 => (0u16..300, any::<u32>(), any::<bool>()).prop_map(|(len, ts, drop)| AppCall::PublishAudio { len, ts, drop }),
        1 => (0u16..300, any::<u32>(), any::<bool>()).prop_map(|(len, ts, drop)| AppCall::PublishVideo { len, ts, drop }),
        1 => Just(AppCall::PublishMetadata),
    ]
    .boxed()
}

fn small_msid() -> BoxedStrategy<u32> {
    prop_oneof![5 => 0u32..4, 1 => any::<u32>()].boxed()
}

fn long_text() -> BoxedStrategy<crate::refs::amf0::S> {
    use crate::refs::amf0::S;
    gen::pick(&[("a", 65_535u32), ("a", 65_471), ("a", 65_472), ("\u{e9}", 32_767), ("\u{e9}", 32_736), ("\u{20ac}", 21_845), ("\u{20ac}", 21_824), ("\u{1f600}", 16_383), ("\u{1f600}", 16_368), ("\u{e9}", 5_000), ("\u{1f600}", 300)])
        .prop_map(|(u, r)| S::rep(u, r))
        .boxed()
}

fn arg_value() -> BoxedStrategy<V> {
    // arguments handlers look at: numbers (stream ids, start positions), strings (keys, modes),
    // booleans, null, objects with the property names the handlers read
    let cfg = AmfCfg { wire: true, too_long: false, empty_names: false, max_depth: 3, chain: 0 };
    prop_oneof![
        4 => gen::amf_value(cfg),
        2 => prop_oneof![Just(0.0f64), Just(1.0), Just(2.0), Just(-1.0), Just(-2.0), Just(f64::NAN), Just(f64::INFINITY), Just(4294967296.0), Just(-0.5), Just(1e300)].prop_map(|f| V::Num(f.to_bits())),
        2 => gen::pick(&["live", "record", "append", "key", "", "NetStream.Play.Start", "NetStream.Publish.Start", "onMetaData", "@setDataFrame"]).prop_map(|s| st(s)),
        // strings just below the AMF0 limit, made of 1-, 2-, 3- and 4-byte characters (a handler that
        // shortens, slices or re-uses a name / key at a byte position must respect character boundaries)
        1 => long_text().prop_map(V::Str),
        2 => proptest::collection::vec((gen::pick(&["app", "code", "level", "description", "objectEncoding", "width", "framerate", "stereo", "encoder", "tcUrl"]), prop_oneof![6 => gen::amf_value(AmfCfg::SMALL), 1 => long_text().prop_map(V::Str)]), 0..5)
            .prop_map(|p| { let mut seen = std::collections::HashSet::new(); V::Obj(p.into_iter().filter(|(k, _)| seen.insert(*k)).map(|(k, v)| (crate::refs::amf0::S::lit(k), v)).collect()) }),
    ]
    .boxed()
}

/// AMF0 bodies whose length / count fields announce far more than the body holds (the cost of
/// decoding must follow the bytes received, not the number announced): an optional well-formed
/// start (command name, transaction id, null), then a strict array / ECMA array / long string /
/// string / object property name with a huge or merely too large count, then a few bytes.
pub fn lying_amf0_body() -> BoxedStrategy<Vec<u8>> {
    (
        gen::pick(&[0u8, 1, 2, 3]),
        gen::pick(&[0x0Au8, 0x08, 0x0C, 0x02, 0x03, 0x0A, 0x0A]),
        prop_oneof![3 => gen::pick(&[0xFFFF_FFFFu32, 0xFFFF_FFFE, 0x8000_0000, 0x7FFF_FFFF, 0xFFFF_0000, 0xC000_0000]), 1 => gen::pick(&[0x0100_0000u32, 0x00FF_FFFF, 65536, 1000, 3]), 1 => any::<u32>()],
        proptest::collection::vec(prop_oneof![gen::pick(&[0x05u8, 0x06, 0x01, 0x00, 0x09, 0x0A, 0x03]), any::<u8>()], 0..12),
        any::<bool>(),
    )
        .prop_map(|(start, marker, count, tail, amf3_zero)| {
            let mut b = Vec::new();
            if amf3_zero {
                b.push(0);
            }
            if start >= 1 {
                b.extend_from_slice(&[0x02, 0x00, 0x01, 0x78]);
            }
            if start >= 2 {
                b.extend_from_slice(&[0x00, 0x3F, 0xF0, 0, 0, 0, 0, 0, 0]);
            }
            if start >= 3 {
                b.push(0x05);
            }
            // containers are nested `reps` times: a decoder that works through the announced count
            // at every level costs `reps` times as much, far beyond the watchdog
            let reps = match tail.len() % 4 { 0 => 1, 1 => 8, 2 => 40, _ => 100 };
            for _ in 0..(if marker == 0x0A || marker == 0x03 { reps } else { 1 }) {
                b.push(marker);
                match marker {
                    0x02 => b.extend_from_slice(&[(count >> 24) as u8, (count >> 16) as u8]),
                    0x03 => b.extend_from_slice(&[0x00, 0x01, 0x61, 0x0A, (count >> 24) as u8, (count >> 16) as u8, (count >> 8) as u8, count as u8]),
                    _ => b.extend_from_slice(&count.to_be_bytes()),
                }
            }
            b.extend(tail);
            b
        })
        .boxed()
}

pub fn fitem() -> BoxedStrategy<FItem> {
    let body = prop_oneof![2 => Just(Vec::new()), 5 => proptest::collection::vec(any::<u8>(), 1..24), 2 => proptest::collection::vec(any::<u8>(), 24..600)];
    prop_oneof![
        5 => (prop_oneof![3 => any::<u8>(), 5 => gen::pick(crate::refs::msg::KNOWN_TYPES)], body, small_msid()).prop_map(|(type_id, body, msid)| FItem::Raw { type_id, body, msid }),
        2 => (gen::pick(&[20u8, 18, 17, 15]), lying_amf0_body(), small_msid()).prop_map(|(type_id, body, msid)| FItem::Raw { type_id, body, msid }),
        10 => (0u8..CMD_NAMES.len() as u8, prop_oneof![4 => (0u32..6).prop_map(|i| (i as f64).to_bits()), 1 => gen::amf_number_bits()], arg_value(), proptest::collection::vec(arg_value(), 0..6), small_msid(), 0u8..3)
            .prop_map(|(name, tid, obj, args, msid, amf3)| FItem::Cmd { name, tid, obj, args, msid, amf3 }),
        4 => (proptest::collection::vec(prop_oneof![2 => gen::pick(&["@setDataFrame", "onMetaData", "onStatus", "|RtmpSampleAccess"]).prop_map(|s| st(s)), 3 => arg_value()], 0..5), small_msid(), any::<bool>()).prop_map(|(values, msid, amf3)| FItem::Data { values, msid, amf3 }),
        3 => (crate::props::c13::rm_strategy(), any::<u16>(), small_msid()).prop_map(|(msg, keep, msid)| FItem::Truncated { msg, keep, msid }),
        2 => prop_oneof![gen::pick(&[0u32, 1, 2, 128, 0x7FFF_FFFF, 0x8000_0000, 0xFFFF_FFFF]), 1u32..300].prop_map(FItem::SetChunkSize),
        1 => gen::edge_u32().prop_map(FItem::WindowAck),
        1 => (gen::edge_u32(), any::<u8>()).prop_map(|(n, l)| FItem::PeerBandwidth(n, l)),
        2 => (prop_oneof![gen::pick(crate::refs::msg::UC_EVENTS), any::<u16>()], proptest::collection::vec(gen::edge_u32(), 0..4)).prop_map(|(event, fields)| FItem::UserControl { event, fields }),
        8 => app_call_strategy().prop_map(FItem::App),
    ]
    .boxed()
}

pub fn hchunk() -> BoxedStrategy<HChunk> {
    (
        (0u8..4, prop_oneof![3 => 2u8..8, 1 => Just(0u8), 1 => Just(1u8), 1 => any::<u8>()], any::<[u8; 2]>()),
        (
            prop_oneof![2 => gen::pick(&[0u32, 1, 0xFF_FFFE, 0xFF_FFFF]), 1 => 0u32..0x100_0000],
            prop_oneof![3 => gen::pick(&[0u32, 1, 5, 10, 127, 128, 129, 300, 0xFF_FFFF, 0xFF_FFFE]), 1 => 0u32..2000, 1 => 0u32..0x100_0000],
            prop_oneof![3 => gen::pick(&[1u8, 4, 8, 9, 18, 20]), 1 => any::<u8>()],
            small_msid(),
        ),
        (prop_oneof![gen::pick(&[0u32, 1, 0xFF_FFFE, 0xFF_FFFF, 0x100_0000, 0xFFFF_FFFF]), any::<u32>()], prop_oneof![6 => Just(0u8), 1 => Just(1u8), 1 => Just(2u8)], prop_oneof![3 => 0u16..140, 1 => 0u16..700], any::<u32>()),
    )
        .prop_map(|((fmt, cs, cs_extra), (ts24, len24, type_id, msid), (ext, ext_mode, payload, fill))| HChunk { fmt, cs, cs_extra, ts24, len24, type_id, msid, ext, ext_mode, payload, fill })
        .boxed()
}

fn target() -> BoxedStrategy<Target> {
    prop_oneof![
        3 => Just(Target::Deserializer),
        1 => Just(Target::MessageDecoder),
        6 => (0u8..4).prop_map(Target::Server),
        6 => (0u8..4).prop_map(Target::Client),
    ]
    .boxed()
}

pub fn case() -> BoxedStrategy<Case> {
    let input = prop_oneof![
        2 => proptest::collection::vec(any::<u8>(), 0..600).prop_map(Input::Raw),
        8 => proptest::collection::vec((fitem(), prop_oneof![3 => Just(0u16), 1 => any::<u16>()]), 1..16).prop_map(Input::Framed),
        4 => proptest::collection::vec(hchunk(), 1..12).prop_map(Input::Headers),
        3 => (c15::deser_case(true)).prop_map(|c| Input::Mutated { source: c.source, mutations: c.mutations }),
    ];
    let hs = (
        prop_oneof![Just(Role::Client), Just(Role::Server)],
        prop_oneof![
            1 => proptest::collection::vec(any::<u8>(), 0..4000).prop_map(Input::Raw),
            1 => proptest::collection::vec(any::<u8>(), 0..4000).prop_map(|mut v| { if !v.is_empty() { v[0] = 3; } Input::Raw(v) }),
            3 => (any::<bool>(), 0u16..728, any::<u64>(), proptest::collection::vec((any::<u16>(), any::<u8>()), 0..4), 0u16..200).prop_map(|(digest, offset, fill, flips, extra)| Input::HandshakeBytes { digest, offset, fill, flips, extra }),
        ],
        gen::partition(),
    )
        .prop_map(|(role, input, partition)| Case { target: Target::Handshake(role), input, partition });
    prop_oneof![
        12 => (target(), input, gen::partition()).prop_map(|(target, input, partition)| Case { target, input, partition }),
        1 => hs,
    ]
    .boxed()
}

/// regression inputs for the defects repaired in /repo (D3 - D6) and other directed cases
fn fixed(_ctx: &Ctx) -> Vec<Case> {
    let mut v = Vec::new();
    // D3: command body with fewer than three values
    for t in [Target::MessageDecoder] {
        v.push(Case { target: t, input: Input::Raw(vec![20, 0, 4, 0x02, 0x00, 0x01, 0x78]), partition: Partition::Whole });
    }
    for prep in 0..4u8 {
        for tgt in [Target::Server(prep), Target::Client(prep)] {
            v.push(Case { target: tgt.clone(), input: Input::Framed(vec![(FItem::Raw { type_id: 20, body: vec![0x02, 0x00, 0x01, 0x78], msid: 0 }, 0)]), partition: Partition::Whole });
            // D4: @setDataFrame alone / without the metadata object
            v.push(Case { target: tgt.clone(), input: Input::Framed(vec![(FItem::Data { values: vec![st("@setDataFrame")], msid: 1, amf3: false }, 0), (FItem::Data { values: vec![st("@setDataFrame"), st("onMetaData")], msid: 1, amf3: false }, 0)]), partition: Partition::Whole });
        }
    }
    // D5: format 1 header with 0xFFFFFF and a small extended value
    let h0 = HChunk { fmt: 0, cs: 3, cs_extra: [0, 0], ts24: 5, len24: 4, type_id: 8, msid: 1, ext: 0, ext_mode: 0, payload: 4, fill: 1 };
    let h1 = HChunk { fmt: 1, ts24: 0xFF_FFFF, ext: 3, ..h0.clone() };
    let h2 = HChunk { fmt: 2, ts24: 0xFF_FFFF, ext: 0, ..h0.clone() };
    v.push(Case { target: Target::Deserializer, input: Input::Headers(vec![h0.clone(), h1, h2, HChunk { fmt: 3, ..h0.clone() }]), partition: Partition::Whole });
    // D6: a header announcing less than what is buffered
    let a = HChunk { fmt: 0, cs: 3, cs_extra: [0, 0], ts24: 0, len24: 300, type_id: 9, msid: 1, ext: 0, ext_mode: 0, payload: 128, fill: 2 };
    let b = HChunk { fmt: 0, cs: 4, len24: 10, payload: 10, ..a.clone() };
    for tgt in [Target::Deserializer, Target::Server(2), Target::Client(3)] {
        v.push(Case { target: tgt, input: Input::Headers(vec![a.clone(), b.clone(), b.clone()]), partition: Partition::ByteByByte });
    }
    // chunk size 0 / 2^31 announced by the peer, then traffic
    for n in [0u32, 0x8000_0000, 1] {
        for tgt in [Target::Server(1), Target::Client(1), Target::Deserializer] {
            v.push(Case { target: tgt, input: Input::Framed(vec![(FItem::SetChunkSize(n), 0), (FItem::Raw { type_id: 9, body: vec![7; 300], msid: 1 }, 0), (FItem::UserControl { event: 6, fields: vec![5] }, 0)]), partition: Partition::Whole });
        }
    }
    // 40 nested AMF0 strict arrays each announcing 2^32-1 elements and holding one (seeded change C03-r7m1: an element
    // loop that no longer stops at the end of the input)
    for (type_id, pre) in [(20u8, &[0x02u8, 0x00, 0x01, 0x78, 0x00, 0x3F, 0xF0, 0, 0, 0, 0, 0, 0][..]), (18, &[][..])] {
        let mut body = pre.to_vec();
        for _ in 0..40 {
            body.extend_from_slice(&[0x0A, 0xFF, 0xFF, 0xFF, 0xFF]);
        }
        body.push(0x05);
        v.push(Case { target: Target::MessageDecoder, input: Input::Raw([&[type_id, 0, body.len() as u8][..], &body[..]].concat()), partition: Partition::Whole });
        v.push(Case { target: Target::Server(1), input: Input::Framed(vec![(FItem::Raw { type_id, body: body.clone(), msid: 0 }, 0)]), partition: Partition::Whole });
        v.push(Case { target: Target::Client(1), input: Input::Framed(vec![(FItem::Raw { type_id, body, msid: 0 }, 0)]), partition: Partition::Whole });
    }
    // a header announcing 16 MiB followed by little data
    v.push(Case { target: Target::Deserializer, input: Input::Headers(vec![HChunk { fmt: 0, cs: 5, cs_extra: [0, 0], ts24: 0, len24: 0xFF_FFFF, type_id: 9, msid: 1, ext: 0, ext_mode: 0, payload: 128, fill: 3 }; 4]), partition: Partition::Whole });
    v
}

pub fn iso() -> IsoCheck<Case> {
    IsoCheck {
        name: "isolated-memory-and-time",
        strategy: Some(Arc::new(|_ctx: &Ctx| case())),
        quick: 16_000,
        thorough: 400_000,
        fixed: Arc::new(fixed),
        eval: Arc::new(eval),
        stack: 8 << 20,
        cap: 2usize << 30,
        watchdog: Duration::from_secs(60),
        max_workers: 16,
    }
}

pub fn spec() -> PropSpec {
    PropSpec {
        id: "C03",
        level: "exploration",
        rule: "(arguments and handler-read properties include strings of 65471..65535 bytes made of 1- to 4-byte characters) inputs: (a) raw bytes and mutated valid streams / handshakes, (b) well-framed chunk streams from the reference peer carrying arbitrary (type id, body) messages, truncated valid bodies, AMF0 bodies whose count / length fields announce up to 2^32-1 elements or bytes and hold a few, protocol commands (names connect, createStream, publish, play, closeStream, deleteStream, _result, _error, onStatus, @setDataFrame, onMetaData, unknown, empty; types 20 / 17 / 17+0x00) with 0..6 arguments from the AMF0 generator and from pools of the values handlers inspect, data messages, control messages with edge values (chunk size 0 / 2^31 / 2^32-1, unknown user-control events, bad limit types), interleaved with application calls (accept / reject with plausible and arbitrary ids, sends, finish_playing, client requests / stops / publishes), (c) adversarial chunk headers (formats 0-3, 1/2/3-byte csid forms, 24-bit fields 0 / 1 / 0xFFFFFE / 0xFFFFFF, lengths smaller than what is buffered, extended field present / absent / contradicting the rule, small extended values); targets: handshake (both roles), chunk deserializer, message decoder, server and client sessions fresh / connected / publishing / playing; every stream under a generated partition. Sub-check 'isolated-memory-and-time' runs the cases in worker processes (heap cap, watchdog, peak heap <= 256 x bytes fed + 17 MiB); sub-check 'no-panic-in-process' runs the same generator in-process so a failure is shrunk. Non-trivial = the input produced at least one message / result, or an error after successful progress, or >= 2 successful calls; distinct = distinct case",
        assumptions: vec![
            "the harness is built with overflow-checks and debug-assertions on, so arithmetic overflow is an observable panic",
            "sessions keep being fed after handle_input returned Err (robustness only: the oracle here is 'returns, does not panic, bounded memory'), although callers are expected to close the connection",
            "AMF0 nesting depth is bounded (<= 4) here; unbounded nesting is C14; the u32 acknowledgement counters need ~4 GiB of input per session to overflow, beyond any per-case budget",
            "hang detection = 60 s watchdog per case (cases take microseconds to milliseconds)",
        ],
        checks: vec![
            Box::new(iso()),
            PropCheck::new("no-panic-in-process", |_| case(), 60_000, 2_000_000, eval),
            crate::targets::corpus_check(&["deser", "message", "server", "client", "handshake"]),
        ],
    }
}
