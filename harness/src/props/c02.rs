//! C02 — client and server sessions interoperate: media arrives byte-exact and tagged.
//! Oracle: validity of the joint history of a real ClientSession and a real ServerSession that
//! exchange their output bytes under a generated fragmentation / interleaving.

use crate::core::*;
use crate::gen::{self, fill_bytes};
use crate::sess::*;
use bytes::Bytes;
use proptest::prelude::*;
use rml_rtmp::sessions::*;
use rml_rtmp::time::RtmpTimestamp;
use serde::{Deserialize, Serialize};
use std::collections::VecDeque;

#[derive(Clone, Debug, Serialize, Deserialize, PartialEq)]
pub struct Meta {
    pub width: Option<u32>,
    pub height: Option<u32>,
    pub vcodec: Option<u32>,
    /// f32 bit pattern
    pub frame_rate: Option<u32>,
    pub vbitrate: Option<u32>,
    pub acodec: Option<u32>,
    pub abitrate: Option<u32>,
    pub sample_rate: Option<u32>,
    pub channels: Option<u32>,
    pub stereo: Option<bool>,
    pub encoder: Option<String>,
}

impl Meta {
    pub fn to_lib(&self) -> StreamMetadata {
        StreamMetadata {
            video_width: self.width,
            video_height: self.height,
            video_codec_id: self.vcodec,
            video_frame_rate: self.frame_rate.map(f32::from_bits),
            video_bitrate_kbps: self.vbitrate,
            audio_codec_id: self.acodec,
            audio_bitrate_kbps: self.abitrate,
            audio_sample_rate: self.sample_rate,
            audio_channels: self.channels,
            audio_is_stereo: self.stereo,
            encoder: self.encoder.clone(),
        }
    }
}

pub fn meta_eq(a: &StreamMetadata, b: &StreamMetadata) -> bool {
    let fr = match (a.video_frame_rate, b.video_frame_rate) {
        (None, None) => true,
        (Some(x), Some(y)) => (x.is_nan() && y.is_nan()) || x.to_bits() == y.to_bits(),
        _ => false,
    };
    fr && a.video_width == b.video_width
        && a.video_height == b.video_height
        && a.video_codec_id == b.video_codec_id
        && a.video_bitrate_kbps == b.video_bitrate_kbps
        && a.audio_codec_id == b.audio_codec_id
        && a.audio_bitrate_kbps == b.audio_bitrate_kbps
        && a.audio_sample_rate == b.audio_sample_rate
        && a.audio_channels == b.audio_channels
        && a.audio_is_stereo == b.audio_is_stereo
        && a.encoder == b.encoder
}

#[derive(Clone, Debug, Serialize, Deserialize, PartialEq)]
pub enum Media {
    Metadata(Meta),
    Audio { len: u32, ts: u32, drop: bool, fill: u32 },
    Video { len: u32, ts: u32, drop: bool, fill: u32 },
}

#[derive(Clone, Debug, Serialize, Deserialize)]
pub struct Scenario {
    pub publish: bool,
    pub app: String,
    pub key: String,
    pub publish_type: u8,
    pub c_chunk: u32,
    pub c_window: u32,
    pub c_buffer: u32,
    pub tc_url: Option<String>,
    pub s_chunk: u32,
    pub s_window: u32,
    pub s_bandwidth: u32,
    pub s_bwdone: bool,
    pub media: Vec<Media>,
    /// deliveries: (client->server?, byte count)
    pub schedule: Vec<(bool, u16)>,
    /// piece size used to drain the queues when the schedule has run out
    pub drain: u16,
    /// session ages in ms (clock hook), applied right after construction
    pub age_c: u64,
    pub age_s: u64,
    /// a second activity on the same connection after the first one was stopped
    #[serde(default)]
    pub second: Option<Second>,
}

#[derive(Clone, Debug, Serialize, Deserialize)]
pub struct Second {
    pub publish: bool,
    pub key: String,
    pub media: Vec<Media>,
}

impl Scenario {
    fn phases(&self) -> usize {
        if self.second.is_some() { 2 } else { 1 }
    }
    fn publish_in(&self, phase: usize) -> bool {
        if phase == 0 { self.publish } else { self.second.as_ref().map(|s| s.publish).unwrap_or(self.publish) }
    }
    fn key_in(&self, phase: usize) -> &str {
        if phase == 0 { &self.key } else { self.second.as_ref().map(|s| s.key.as_str()).unwrap_or(&self.key) }
    }
    fn media_in(&self, phase: usize) -> &[Media] {
        if phase == 0 { &self.media } else { self.second.as_ref().map(|s| &s.media[..]).unwrap_or(&[]) }
    }
}

#[derive(Debug, Clone, PartialEq)]
pub enum Got {
    Metadata(StreamMetadata),
    Audio(Vec<u8>, u32),
    Video(Vec<u8>, u32),
}

fn got_matches(g: &Got, m: &Media) -> bool {
    match (g, m) {
        (Got::Metadata(a), Media::Metadata(b)) => meta_eq(a, &b.to_lib()),
        (Got::Audio(d, t), Media::Audio { len, ts, fill, .. }) => t == ts && d == &fill_bytes(*fill, *len as usize),
        (Got::Video(d, t), Media::Video { len, ts, fill, .. }) => t == ts && d == &fill_bytes(*fill, *len as usize),
        _ => false,
    }
}

fn got_brief(g: &Got) -> String {
    match g {
        Got::Metadata(m) => format!("Metadata({:?})", m),
        Got::Audio(d, t) => format!("Audio(len={}, ts={})", d.len(), t),
        Got::Video(d, t) => format!("Video(len={}, ts={})", d.len(), t),
    }
}

#[derive(Default)]
struct Phase {
    received: Vec<Got>,
    request_accepted: u32,
    finished: u32,
    finished_ok: bool,
    stream_requested: u32,
    media_sent: bool,
    stopped: bool,
}

struct World {
    client: ClientSession,
    server: ServerSession,
    c2s: VecDeque<u8>,
    s2c: VecDeque<u8>,
    connect_accepted: u32,
    conn_requested: u32,
    expected_app: String,
    phase: usize,
    phases: Vec<Phase>,
}

impl World {
    fn cur(&mut self) -> &mut Phase {
        let i = self.phase;
        &mut self.phases[i]
    }
}

pub fn eval(sc: &Scenario) -> Verdict {
    let ccfg = ClientSessionConfig {
        flash_version: "LNX 9,0,124,2".to_string(),
        playback_buffer_length_ms: sc.c_buffer,
        window_ack_size: sc.c_window,
        chunk_size: sc.c_chunk,
        tc_url: sc.tc_url.clone(),
    };
    let scfg = ServerSessionConfig {
        fms_version: "FMS/3,0,1,123".to_string(),
        chunk_size: sc.s_chunk,
        peer_bandwidth: sc.s_bandwidth,
        window_ack_size: sc.s_window,
        send_on_bw_done_message_on_start: sc.s_bwdone,
    };
    let (mut client, cinit) = match ClientSession::new(ccfg) {
        Ok(x) => x,
        Err(e) => vfail!("ClientSession::new refused an acceptable configuration: {:?}", e),
    };
    let (mut server, sinit) = match ServerSession::new(scfg) {
        Ok(x) => x,
        Err(e) => vfail!("ServerSession::new refused an acceptable configuration: {:?}", e),
    };
    if sc.age_c > 0 {
        client.verif_shift_clock(sc.age_c);
    }
    if sc.age_s > 0 {
        server.verif_shift_clock(sc.age_s);
    }
    let expected_app = if sc.app.ends_with('/') { sc.app[..sc.app.len() - 1].to_string() } else { sc.app.clone() };
    let mut w = World {
        client,
        server,
        c2s: VecDeque::new(),
        s2c: VecDeque::new(),
        connect_accepted: 0,
        conn_requested: 0,
        expected_app,
        phase: 0,
        phases: (0..sc.phases()).map(|_| Phase::default()).collect(),
    };
    if let Err(e) = client_results(&mut w, sc, cinit) {
        return Verdict::Fail(e);
    }
    if let Err(e) = server_results(&mut w, sc, sinit) {
        return Verdict::Fail(e);
    }
    match w.client.request_connection(sc.app.clone()) {
        Ok(r) => {
            if let Err(e) = client_results(&mut w, sc, vec![r]) {
                return Verdict::Fail(e);
            }
        }
        Err(e) => vfail!("request_connection failed: {:?}", e),
    }
    let mut sched = sc.schedule.iter();
    let mut steps = 0u64;
    let mut switches = 0u32;
    let mut last_dir: Option<bool> = None;
    let mut cut_in_flight = false;
    let drain = (sc.drain as usize).max(1);
    loop {
        let last = sc.phases() - 1;
        let goal = w.phase == last && w.phases[last].finished >= 1 && w.phases[last].received.len() >= sc.media_in(last).len() && w.phases[last].stopped;
        if goal || (w.c2s.is_empty() && w.s2c.is_empty()) {
            break;
        }
        steps += 1;
        if steps > 2_000_000 {
            return Verdict::Harness("exchange did not terminate within 2M deliveries".to_string());
        }
        let (mut dir, mut n) = match sched.next() {
            Some((d, n)) => (*d, *n as usize),
            // draining: the generated piece size, but never so small that a long queue needs more
            // than a few hundred deliveries (window 0 / 1 make every delivery trigger an
            // acknowledgement, which would otherwise multiply the traffic without bound)
            None => (steps % 2 == 0, drain.max(1 + w.c2s.len().max(w.s2c.len()) / 200)),
        };
        if dir && w.c2s.is_empty() {
            dir = false;
        } else if !dir && w.s2c.is_empty() {
            dir = true;
        }
        if last_dir.is_some() && last_dir != Some(dir) && w.phases[w.phase].media_sent && !w.phases[w.phase].stopped {
            switches += 1;
        }
        last_dir = Some(dir);
        n = n.max(1);
        if dir {
            let k = n.min(w.c2s.len());
            if k < w.c2s.len() {
                cut_in_flight = true;
            }
            let piece: Vec<u8> = w.c2s.drain(..k).collect();
            match w.server.handle_input(&piece) {
                Ok(r) => {
                    if let Err(e) = server_results(&mut w, sc, r) {
                        return Verdict::Fail(e);
                    }
                }
                Err(e) => vfail!("server handle_input failed on client output: {:?}", e),
            }
        } else {
            let k = n.min(w.s2c.len());
            if k < w.s2c.len() {
                cut_in_flight = true;
            }
            let piece: Vec<u8> = w.s2c.drain(..k).collect();
            match w.client.handle_input(&piece) {
                Ok(r) => {
                    if let Err(e) = client_results(&mut w, sc, r) {
                        return Verdict::Fail(e);
                    }
                }
                Err(e) => vfail!("client handle_input failed on server output: {:?}", e),
            }
        }
    }
    // the joint history must be complete
    vensure!(w.conn_requested == 1, "server raised {} ConnectionRequested events", w.conn_requested);
    vensure!(w.connect_accepted == 1, "client raised {} ConnectionRequestAccepted events", w.connect_accepted);
    for (i, ph) in w.phases.iter().enumerate() {
        let media = sc.media_in(i);
        let what = if i == 0 { "first activity" } else { "second activity" };
        vensure!(ph.stream_requested == 1, "{}: server raised {} publish/play request events", what, ph.stream_requested);
        vensure!(ph.request_accepted == 1, "{}: client raised {} publish/playback accepted events", what, ph.request_accepted);
        vensure!(ph.received.len() == media.len(), "{}: {} of {} media items arrived: {:?}", what, ph.received.len(), media.len(), ph.received.iter().map(got_brief).collect::<Vec<_>>());
        for (k, (g, m)) in ph.received.iter().zip(media.iter()).enumerate() {
            vensure!(got_matches(g, m), "{}: media item {} arrived as {} but {:?} was sent", what, k, got_brief(g), m);
        }
        vensure!(ph.finished == 1 && ph.finished_ok, "{}: server raised {} matching finished events after the stop", what, ph.finished);
    }
    let mut obs = Obs::new();
    obs.class(if sc.publish { "publish" } else { "play" });
    obs.class_if(cut_in_flight, "delivery-cuts-a-packet");
    obs.class_if(sc.c_chunk != 128 && sc.s_chunk != 128, "both-chunk-sizes-non-default");
    obs.class_if(sc.c_chunk == 1 || sc.s_chunk == 1, "chunk-size-1");
    obs.class_if(sc.c_chunk >= 0x7FFF_FFFE || sc.s_chunk >= 0x7FFF_FFFE, "chunk-size-max");
    obs.class_if(sc.c_window < 200 || sc.s_window < 200, "small-window");
    obs.class_if(sc.media.iter().any(|m| matches!(m, Media::Audio { len: 0, .. } | Media::Video { len: 0, .. })), "zero-length-media");
    obs.class_if(sc.second.is_some(), "second-activity-on-the-same-connection");
    obs.class_if(sc.media.iter().any(|m| matches!(m, Media::Metadata(_))), "metadata");
    obs.class_if(switches >= 2, "direction-switches-while-media-in-flight");
    obs.class_if(sc.age_c > 0 || sc.age_s > 0, "aged-session");
    obs.class_if(sc.app.ends_with('/'), "app-trailing-slash");
    obs.count("media-items", sc.media.len() as u64);
    obs.nontrivial = !sc.media.is_empty() && (cut_in_flight || (sc.c_chunk != 128 && sc.s_chunk != 128) || switches >= 2);
    Verdict::Pass(obs)
}

fn send_media_from_client(w: &mut World, sc: &Scenario) -> Result<(), String> {
    let mut results = Vec::new();
    let phase = w.phase;
    for (i, m) in sc.media_in(phase).iter().enumerate() {
        let r = match m {
            Media::Metadata(meta) => w.client.publish_metadata(&meta.to_lib()),
            Media::Audio { len, ts, drop, fill } => w.client.publish_audio_data(Bytes::from(fill_bytes(*fill, *len as usize)), RtmpTimestamp::new(*ts), *drop),
            Media::Video { len, ts, drop, fill } => w.client.publish_video_data(Bytes::from(fill_bytes(*fill, *len as usize)), RtmpTimestamp::new(*ts), *drop),
        };
        match r {
            Ok(x) => results.push(x),
            Err(e) => return Err(format!("client refused to publish media item {} ({:?}): {:?}", i, m, e)),
        }
    }
    w.cur().media_sent = true;
    client_results(w, sc, results)?;
    // stop right behind the media: the deleteStream travels after it
    match w.client.stop_publishing() {
        Ok(r) => {
            w.cur().stopped = true;
            client_results(w, sc, r)
        }
        Err(e) => Err(format!("stop_publishing failed: {:?}", e)),
    }
}

fn send_media_from_server(w: &mut World, sc: &Scenario, stream_id: u32) -> Result<(), String> {
    let phase = w.phase;
    for (i, m) in sc.media_in(phase).iter().enumerate() {
        let r = match m {
            Media::Metadata(meta) => w.server.send_metadata(stream_id, &meta.to_lib()),
            Media::Audio { len, ts, drop, fill } => w.server.send_audio_data(stream_id, Bytes::from(fill_bytes(*fill, *len as usize)), RtmpTimestamp::new(*ts), *drop),
            Media::Video { len, ts, drop, fill } => w.server.send_video_data(stream_id, Bytes::from(fill_bytes(*fill, *len as usize)), RtmpTimestamp::new(*ts), *drop),
        };
        match r {
            Ok(p) => w.s2c.extend(p.bytes),
            Err(e) => return Err(format!("server refused to send media item {} ({:?}): {:?}", i, m, e)),
        }
    }
    w.cur().media_sent = true;
    Ok(())
}

fn maybe_stop_playback(w: &mut World, sc: &Scenario) -> Result<(), String> {
    let phase = w.phase;
    if !sc.publish_in(phase) && !w.cur().stopped && w.cur().request_accepted >= 1 && w.cur().received.len() >= sc.media_in(phase).len() {
        w.cur().stopped = true;
        match w.client.stop_playback() {
            Ok(r) => client_results(w, sc, r)?,
            Err(e) => return Err(format!("stop_playback failed: {:?}", e)),
        }
    }
    Ok(())
}

fn start_activity(w: &mut World, sc: &Scenario) -> Result<(), String> {
    let phase = w.phase;
    let key = sc.key_in(phase).to_string();
    let r = if sc.publish_in(phase) {
        let t = match sc.publish_type % 3 {
            0 => PublishRequestType::Live,
            1 => PublishRequestType::Record,
            _ => PublishRequestType::Append,
        };
        w.client.request_publishing(key, t)
    } else {
        w.client.request_playback(key)
    };
    match r {
        Ok(x) => client_results(w, sc, vec![x]),
        Err(e) => Err(format!("request for activity {} failed: {:?}", phase + 1, e)),
    }
}

/// Called when the server raised the finished event of the current activity.
fn activity_finished(w: &mut World, sc: &Scenario) -> Result<(), String> {
    if w.phase + 1 < sc.phases() && w.cur().stopped {
        w.phase += 1;
        start_activity(w, sc)?;
    }
    Ok(())
}

/// Queues ALL outbound packets of one call first (the documented ordering), then reacts to events.
fn client_results(w: &mut World, sc: &Scenario, results: Vec<ClientSessionResult>) -> Result<(), String> {
    let out = split_client(results);
    for (b, _) in &out.packets {
        w.c2s.extend(b.iter().copied());
    }
    for ev in out.events {
        match ev {
            ClientSessionEvent::ConnectionRequestAccepted => {
                w.connect_accepted += 1;
                start_activity(w, sc)?;
            }
            ClientSessionEvent::ConnectionRequestRejected { description } => return Err(format!("connection rejected although the server accepted: {}", description)),
            ClientSessionEvent::PublishRequestAccepted => {
                if !sc.publish_in(w.phase) {
                    return Err("PublishRequestAccepted in a play activity".to_string());
                }
                w.cur().request_accepted += 1;
                if w.cur().request_accepted == 1 {
                    send_media_from_client(w, sc)?;
                }
            }
            ClientSessionEvent::PlaybackRequestAccepted => {
                if sc.publish_in(w.phase) {
                    return Err("PlaybackRequestAccepted in a publish activity".to_string());
                }
                w.cur().request_accepted += 1;
                maybe_stop_playback(w, sc)?;
            }
            ClientSessionEvent::StreamMetadataReceived { metadata } => {
                if sc.publish_in(w.phase) {
                    return Err("client received metadata in a publish activity".to_string());
                }
                w.cur().received.push(Got::Metadata(metadata));
                maybe_stop_playback(w, sc)?;
            }
            ClientSessionEvent::AudioDataReceived { data, timestamp } => {
                w.cur().received.push(Got::Audio(data.to_vec(), timestamp.value));
                maybe_stop_playback(w, sc)?;
            }
            ClientSessionEvent::VideoDataReceived { data, timestamp } => {
                w.cur().received.push(Got::Video(data.to_vec(), timestamp.value));
                maybe_stop_playback(w, sc)?;
            }
            _ => {}
        }
    }
    Ok(())
}

fn server_results(w: &mut World, sc: &Scenario, results: Vec<ServerSessionResult>) -> Result<(), String> {
    let out = split_server(results);
    for (b, _) in &out.packets {
        w.s2c.extend(b.iter().copied());
    }
    for ev in out.events {
        match ev {
            ServerSessionEvent::ConnectionRequested { request_id, app_name } => {
                w.conn_requested += 1;
                if app_name != w.expected_app {
                    return Err(format!("connection requested for app {:?}, the client asked for {:?}", app_name, sc.app));
                }
                match w.server.accept_request(request_id) {
                    Ok(r) => server_results(w, sc, r)?,
                    Err(e) => return Err(format!("accept_request(connect) failed: {:?}", e)),
                }
            }
            ServerSessionEvent::PublishStreamRequested { request_id, app_name, stream_key, mode } => {
                w.cur().stream_requested += 1;
                let want_mode = match sc.publish_type % 3 {
                    0 => PublishMode::Live,
                    1 => PublishMode::Record,
                    _ => PublishMode::Append,
                };
                if !sc.publish_in(w.phase) || app_name != w.expected_app || stream_key != sc.key_in(w.phase) || mode != want_mode {
                    return Err(format!("publish request surfaced as app={:?} key={:?} mode={:?}; expected app={:?} key={:?} mode={:?}", app_name, stream_key, mode, w.expected_app, sc.key_in(w.phase), want_mode));
                }
                match w.server.accept_request(request_id) {
                    Ok(r) => server_results(w, sc, r)?,
                    Err(e) => return Err(format!("accept_request(publish) failed: {:?}", e)),
                }
            }
            ServerSessionEvent::PlayStreamRequested { request_id, app_name, stream_key, stream_id, .. } => {
                w.cur().stream_requested += 1;
                if sc.publish_in(w.phase) || app_name != w.expected_app || stream_key != sc.key_in(w.phase) {
                    return Err(format!("play request surfaced as app={:?} key={:?}; expected app={:?} key={:?}", app_name, stream_key, w.expected_app, sc.key_in(w.phase)));
                }
                match w.server.accept_request(request_id) {
                    Ok(r) => server_results(w, sc, r)?,
                    Err(e) => return Err(format!("accept_request(play) failed: {:?}", e)),
                }
                send_media_from_server(w, sc, stream_id)?;
            }
            ServerSessionEvent::StreamMetadataChanged { app_name, stream_key, metadata } => {
                if app_name != w.expected_app || stream_key != sc.key_in(w.phase) {
                    return Err(format!("metadata tagged {:?}/{:?}", app_name, stream_key));
                }
                w.cur().received.push(Got::Metadata(metadata));
            }
            ServerSessionEvent::AudioDataReceived { app_name, stream_key, data, timestamp } => {
                if app_name != w.expected_app || stream_key != sc.key_in(w.phase) {
                    return Err(format!("audio tagged {:?}/{:?}", app_name, stream_key));
                }
                w.cur().received.push(Got::Audio(data.to_vec(), timestamp.value));
            }
            ServerSessionEvent::VideoDataReceived { app_name, stream_key, data, timestamp } => {
                if app_name != w.expected_app || stream_key != sc.key_in(w.phase) {
                    return Err(format!("video tagged {:?}/{:?}", app_name, stream_key));
                }
                w.cur().received.push(Got::Video(data.to_vec(), timestamp.value));
            }
            ServerSessionEvent::PublishStreamFinished { app_name, stream_key } => {
                let ok = sc.publish_in(w.phase) && app_name == w.expected_app && stream_key == sc.key_in(w.phase);
                w.cur().finished += 1;
                w.cur().finished_ok = ok;
                activity_finished(w, sc)?;
            }
            ServerSessionEvent::PlayStreamFinished { app_name, stream_key } => {
                let ok = !sc.publish_in(w.phase) && app_name == w.expected_app && stream_key == sc.key_in(w.phase);
                w.cur().finished += 1;
                w.cur().finished_ok = ok;
                activity_finished(w, sc)?;
            }
            _ => {}
        }
    }
    Ok(())
}

pub fn meta() -> BoxedStrategy<Meta> {
    let o = || proptest::option::weighted(0.6, gen::edge_u32());
    (
        (o(), o(), o(), proptest::option::weighted(0.6, prop_oneof![gen::pick(&[0x41F0_0000u32, 0x41EF_C28F, 0x7FC0_0000, 0, 0x8000_0000, 0x7F80_0000]), any::<u32>()])),
        (o(), o(), o(), o(), o()),
        proptest::option::weighted(0.6, any::<bool>()),
        proptest::option::weighted(0.6, "[ -~]{0,20}|\\PC{0,8}"),
    )
        .prop_map(|((width, height, vcodec, frame_rate), (vbitrate, acodec, abitrate, sample_rate, channels), stereo, encoder)| Meta { width, height, vcodec, frame_rate, vbitrate, acodec, abitrate, sample_rate, channels, stereo, encoder })
        .boxed()
}

pub fn media(c_chunk: u32, s_chunk: u32, cap: u32) -> BoxedStrategy<Media> {
    let around = move |cs: u32| -> BoxedStrategy<u32> { (0u32..4, -1i64..2).prop_map(move |(m, o)| ((m as u64 * cs as u64).min(cap as u64) as i64 + o).clamp(0, cap as i64) as u32).boxed() };
    let len = prop_oneof![
        1 => Just(0u32),
        3 => 1u32..20,
        3 => 1u32..600,
        2 => around(c_chunk),
        2 => around(s_chunk),
        1 => 600u32..cap.max(601),
    ];
    prop_oneof![
        2 => meta().prop_map(Media::Metadata),
        4 => (len.clone(), gen::edge_u32(), any::<bool>(), any::<u32>()).prop_map(|(len, ts, drop, fill)| Media::Audio { len, ts, drop, fill }),
        4 => (len, gen::edge_u32(), any::<bool>(), any::<u32>()).prop_map(|(len, ts, drop, fill)| Media::Video { len, ts, drop, fill }),
    ]
    .boxed()
}

/// A media script: independent items, or a regular cadence (one kind, constant length, constant
/// timestamp step incl. steps at the extended-timestamp threshold and "backwards" steps) — the
/// shape real encoders produce and the one that makes header formats 2 and 3 frequent.
pub fn media_script(c_chunk: u32, s_chunk: u32, cap: u32, max: usize) -> BoxedStrategy<Vec<Media>> {
    let regular = (
        any::<bool>(),
        prop_oneof![1 => Just(0u32), 3 => 1u32..20, 3 => 1u32..600, 1 => (0u32..3, -1i64..2).prop_map(move |(m, o)| ((m as u64 * c_chunk.min(s_chunk) as u64).min(cap as u64) as i64 + o).clamp(0, cap as i64) as u32)],
        gen::edge_u32(),
        prop_oneof![3 => gen::pick(&[0u32, 20, 40, 0xFF_FFFE, 0xFF_FFFF, 0x100_0000, 0x100_0001, 0xFFFF_FC18, 0x8000_0000]), 1 => gen::edge_u32()],
        any::<bool>(),
        1usize..max.max(2),
    )
        .prop_map(|(audio, len, t0, step, drop, n)| {
            (0..n)
                .map(|i| {
                    let ts = t0.wrapping_add(step.wrapping_mul(i as u32));
                    if audio { Media::Audio { len, ts, drop, fill: i as u32 } } else { Media::Video { len, ts, drop, fill: i as u32 } }
                })
                .collect::<Vec<_>>()
        });
    // items that are exact copies of the previous item or of the one before it: the same metadata
    // twice, the same frame at the same timestamp twice (a receiver that de-duplicates, an encoder
    // that treats "same as before" as "nothing to send", a zero delta compressed away)
    let with_repeats = proptest::collection::vec((media(c_chunk, s_chunk, cap), any::<u8>()), 1..max.max(2)).prop_map(|v| {
        let mut out: Vec<Media> = Vec::with_capacity(v.len());
        for (m, sel) in v {
            let n = out.len();
            if sel < 90 && n >= 1 {
                out.push(out[n - 1].clone());
            } else if sel < 130 && n >= 2 {
                out.push(out[n - 2].clone());
            } else {
                out.push(m);
            }
        }
        out
    });
    prop_oneof![3 => proptest::collection::vec(media(c_chunk, s_chunk, cap), 0..max), 2 => regular, 2 => with_repeats].boxed()
}

pub fn scenario(thorough: bool) -> BoxedStrategy<Scenario> {
    let chunk = || prop_oneof![3 => gen::pick(&[1u32, 2, 3, 7, 127, 128, 129, 4096, 65536, 0x7FFF_FFFF, 0x7FFF_FFFE]), 3 => 1u32..400, 1 => 1u32..0x8000_0000];
    let window = || prop_oneof![3 => gen::pick(&[1u32, 2, 33, 50, 128, 2_500_000, 0xFFFF_FFFF, 0]), 2 => 1u32..2000, 1 => any::<u32>()];
    let age = move || if thorough { prop_oneof![3 => Just(0u64), 1 => gen::pick(&[16_777_000u64, 16_777_300, 2_147_483_000, 4_294_967_000, 4_294_967_400, 8_589_934_000])].boxed() } else { prop_oneof![6 => Just(0u64), 1 => gen::pick(&[16_777_000u64, 4_294_967_000, 4_294_967_400])].boxed() };
    let cap = if thorough { 70_000 } else { 20_000 };
    ((chunk(), chunk()), (window(), window()))
        .prop_flat_map(move |((c_chunk, s_chunk), (c_window, s_window))| {
            (
                (Just(c_chunk), Just(s_chunk), Just(c_window), Just(s_window)),
                (any::<bool>(), prop_oneof![6 => "[a-z]{1,8}(/[a-z0-9]{1,5})?/?", 2 => "[a-zA-Z0-9 _.-]{1,12}(/[A-Za-z0-9]{1,5}){0,2}/{0,3}", 1 => "\\PC{1,8}/{0,2}", 1 => gen::pick(&["live//", "a/b//", "//", "Live", "LIVE/", "live ", " live", "app\u{0}x", "ünï/çødé/"]).prop_map(|x| x.to_string())], prop_oneof![6 => "[a-zA-Z0-9_?=&-]{1,16}", 2 => "\\PC{1,12}", 1 => "[a-z]{1,4}(/[a-z]{1,4}){1,3}/?", 1 => gen::pick(&["key ", " key", "KEY", "key/", "/key", "a?b=c&d=e", "k\u{0}", "üñí"]).prop_map(|x| x.to_string()), 1 => (200usize..1500).prop_map(|n| "k".repeat(n))], 0u8..3),
                (gen::edge_u32(), proptest::option::weighted(0.3, "rtmp://[a-z]{1,8}/[a-z]{1,5}"), gen::edge_u32(), any::<bool>()),
                media_script(c_chunk, s_chunk, cap, 12),
                proptest::collection::vec((any::<bool>(), prop_oneof![3 => 1u16..20, 3 => 1u16..300, 1 => 300u16..5000]), 0..80),
                prop_oneof![Just(1u16), 2u16..50, 50u16..5000],
                (age(), age()),
                proptest::option::weighted(0.35, (any::<bool>(), "[a-zA-Z0-9_-]{1,12}", media_script(c_chunk, s_chunk, cap.min(5000), 6)).prop_map(|(publish, key, media)| Second { publish, key, media })),
            )
        })
        .prop_map(|((c_chunk, s_chunk, c_window, s_window), (publish, app, key, publish_type), (c_buffer, tc_url, s_bandwidth, s_bwdone), media, schedule, drain, (age_c, age_s), second)| Scenario {
            publish,
            app,
            key,
            publish_type,
            c_chunk,
            c_window,
            c_buffer,
            tc_url,
            s_chunk,
            s_window,
            s_bandwidth,
            s_bwdone,
            media,
            schedule,
            drain,
            age_c,
            age_s,
            second,
        })
        .boxed()
}

pub fn spec() -> PropSpec {
    PropSpec {
        id: "C02",
        level: "exploration",
        rule: "scenarios: publish or play, application name (with/without trailing '/'), stream key, publish type, client and server configurations (chunk sizes from {1,2,3,7,127..129,4096,65536,2^31-2,2^31-1, 1..400, any}, windows from {0,1,2,33,50,128,2.5M,2^32-1, any}, bandwidth, onBWDone flag, tcUrl), a media script of 0..12 metadata/audio/video items, either independent, or a regular cadence (one kind, constant length, constant timestamp step incl. 0xFFFFFE..0x1000001, 2^31 and backwards steps), or with exact repeats of the previous item / the one before it (lengths 0, 1.., around both chunk sizes, up to 20000 quick / 70000 thorough; any u32 timestamps; droppable flags) and a delivery schedule of (direction, byte count) steps, then alternate draining with a generated piece size; sessions optionally pre-aged past 2^24 / 2^32 ms; in 35 % of scenarios a second publish or play follows on the same connection after the first was stopped. A real ClientSession and ServerSession exchange bytes; the harness accepts every request. Non-trivial = >= 1 media item and (a delivery that cuts a queued packet, or both chunk sizes non-default, or >= 2 direction switches while media is in flight); distinct = distinct scenario",
        assumptions: vec![
            "the driver queues all outbound packets of one call, in order, before reacting to that call's events (the documented ordering)",
            "one publish or play per connection; the application accepts every request; rejection paths belong to C09/C10",
            "Acknowledgement traffic is ignored here (C17); the run ends when the goal (all media delivered, finished event raised) is reached or both queues are empty",
            "the server strips exactly one trailing '/' from the application name (documented)",
        ],
        checks: vec![PropCheck::new("interop", |ctx| scenario(ctx.tier == Tier::Thorough), 25_000, 600_000, eval)],
    }
}
