//! C16 — messages interleaved on different chunk streams are each reassembled intact.
//! Oracle: RefChunkDec (per-chunk-stream reassembly) defines the expected deliveries.
//!
//! Known finding D11: the library reassembles into one buffer shared by all chunk streams.  A
//! failing case is classified: if everything the reference completes before the first *overlap
//! point* (the first chunk that arrives while another chunk stream's message is incomplete) is
//! delivered correctly, the failure carries the signature `shared-reassembly-overlap`; a
//! divergence before any overlap, or in an overlap-free interleaving, is a plain violation.

use crate::core::*;
use crate::drive::*;
use crate::gen::{self, fill_bytes, Partition};
use crate::refs::chunk::{EncOpts, Msg, RefChunkDec, RefChunkEnc};
use proptest::prelude::*;
use serde::{Deserialize, Serialize};

#[derive(Clone, Debug, Serialize, Deserialize)]
pub struct GMsg {
    pub csid: u32,
    pub want_fmt: u8,
    pub type_id: u8,
    pub msid: u32,
    pub dts: u32,
    /// number of chunks the message is cut into (1..6)
    pub chunks: u8,
    /// bytes missing from the last chunk (0 = full last chunk)
    pub short_by: u8,
    pub fill: u32,
}

#[derive(Clone, Debug, Serialize, Deserialize)]
pub struct Case {
    pub chunk_size: u32,
    /// complete messages sent first, one after another (palette-generated foreign operations on
    /// several chunk stream ids, so compressed headers that refer back across messages on OTHER
    /// chunk streams are frequent)
    pub pre: Vec<FOp>,
    /// the interleaved group: distinct chunk stream ids
    pub group: Vec<GMsg>,
    /// merge choices: at each step picks among the messages that still have chunks to send;
    /// when exhausted the remaining chunks follow message by message (no further interleaving)
    pub merge: Vec<u16>,
    pub partition: Partition,
}

fn build(m: &GMsg, ts: u32, cs: u32) -> Msg {
    let full = m.chunks.max(1) as u32 * cs;
    let len = full.saturating_sub((m.short_by as u32).min(cs - 1)).max(1);
    Msg { ts, type_id: m.type_id, msid: m.msid, payload: fill_bytes(m.fill, len as usize) }
}

pub fn eval(case: &Case) -> Verdict {
    let cs = case.chunk_size.clamp(1, 400);
    let mut enc = RefChunkEnc::new();
    let mut stream = Vec::new();
    let mut n_pre = 0usize;
    if cs != 128 {
        stream.extend_from_slice(&enc.set_chunk_size(cs, 0));
        n_pre += 1;
    }
    let mut ts_by: std::collections::HashMap<u32, u32> = std::collections::HashMap::new();
    {
        // the sequential prefix; in-band chunk-size changes are dropped so that `cs` stays in force
        let pre: Vec<FOp> = case.pre.iter().filter(|o| matches!(o, FOp::Msg(_))).cloned().collect();
        let mut out = ForeignOut { stream: Vec::new(), expected: Vec::new(), fmts: Vec::new(), non_minimal_csid: false };
        encode_foreign_into(&mut enc, &mut ts_by, &pre, &mut out);
        n_pre += out.expected.len();
        stream.extend(out.stream);
    }
    let mut next_ts = |csid: u32, dts: u32| -> u32 {
        let e = ts_by.entry(csid).or_insert(0);
        *e = e.wrapping_add(dts);
        *e
    };
    // distinct chunk stream ids inside the group (the generator draws them distinct; enforce)
    let mut group: Vec<&GMsg> = Vec::new();
    for m in &case.group {
        if !group.iter().any(|g| g.csid == m.csid) {
            group.push(m);
        }
    }
    let mut lists: Vec<Vec<Vec<u8>>> = Vec::new();
    for m in &group {
        let msg = build(m, next_ts(m.csid, m.dts), cs);
        let e = enc.encode(&msg, &EncOpts { csid: m.csid, want_fmt: m.want_fmt, three_byte: false, fmt0_continuation: false });
        lists.push(e.chunks);
    }
    // merge
    let mut idx = vec![0usize; lists.len()];
    let mut overlap_at: Option<usize> = None;
    let mut step = 0usize;
    loop {
        let live: Vec<usize> = (0..lists.len()).filter(|i| idx[*i] < lists[*i].len()).collect();
        if live.is_empty() {
            break;
        }
        let pick = if step < case.merge.len() {
            live[((case.merge[step] as usize) * live.len()) >> 16]
        } else {
            // sequential tail: finish a started message first, else the first live one
            *live.iter().find(|i| idx[**i] > 0).unwrap_or(&live[0])
        };
        step += 1;
        // overlap: some OTHER message is started but not finished
        let other_open = (0..lists.len()).any(|j| j != pick && idx[j] > 0 && idx[j] < lists[j].len());
        if other_open && overlap_at.is_none() {
            overlap_at = Some(stream.len());
        }
        stream.extend_from_slice(&lists[pick][idx[pick]]);
        idx[pick] += 1;
    }
    // expected deliveries: the reference decoder
    let three_byte_pre = case.pre.iter().any(|o| matches!(o, FOp::Msg(m) if m.three_byte && m.csid >= 64 && m.csid < 320));
    let mut rd = RefChunkDec::new(!three_byte_pre);
    let dec = match rd.feed(&stream).and_then(|d| rd.finish().map(|_| d)) {
        Ok(d) => d,
        Err(e) => return Verdict::Harness(format!("RefChunkDec rejects the interleaved reference stream: {}", e)),
    };
    let want: Vec<Msg> = dec.iter().map(|d| d.msg.clone()).collect();
    let expected_count = n_pre + group.len();
    if want.len() != expected_count {
        return Verdict::Harness(format!("reference delivered {} messages, {} were sent", want.len(), expected_count));
    }
    let (got, err) = lib_decode(&stream, &case.partition);
    let diff = first_difference(&got, &want);
    let mut obs = Obs::new();
    let interleaved = dec.iter().any(|d| d.interleaved);
    if err.is_some() || diff.is_some() {
        let msg = format!(
            "{}{}",
            err.map(|e| format!("deserializer error after {} messages: {}; ", got.len(), e)).unwrap_or_default(),
            diff.unwrap_or_default()
        );
        match overlap_at {
            Some(o) if interleaved => {
                // everything completed strictly before the overlap point must be right
                let n0 = dec.iter().filter(|d| d.end as usize <= o).count();
                let ok_before = got.len() >= n0 && got[..n0] == want[..n0];
                if ok_before {
                    return Verdict::Known { sig: "shared-reassembly-overlap", detail: msg };
                }
                vfail!("divergence BEFORE the first overlap point (byte {}): {}", o, msg);
            }
            _ => vfail!("overlap-free interleaving decoded wrongly: {}", msg),
        }
    }
    // delivery timing ("when its last chunk arrives"), judged up to the first overlap point
    {
        let mut ends: Vec<u64> = dec.iter().map(|d| d.end).collect();
        ends.sort_unstable();
        let by_end: Vec<Msg> = {
            let mut v: Vec<&crate::refs::chunk::DecMsg> = dec.iter().collect();
            v.sort_by_key(|d| d.end);
            v.into_iter().map(|d| d.msg.clone()).collect()
        };
        let limit = overlap_at.unwrap_or(stream.len());
        if let Some(e) = lib_delivery_timing(&stream, &ends, &by_end, limit) {
            vfail!("{}", e);
        }
        obs.class_if(dec.iter().any(|d| d.msg.payload.is_empty() && (d.end as usize) <= limit), "zero-length-message-timing-judged");
    }
    obs.class_if(interleaved, "chunks-interleaved");
    obs.class_if(!interleaved, "overlap-free");
    obs.class_if(!case.pre.is_empty(), "sequential-prefix-on-several-chunk-streams");
    obs.class_if(dec.iter().any(|d| d.first_fmt == 3), "format-3-new-message");
    obs.class_if(dec.iter().any(|d| d.first_fmt != 0), "compressed-first-chunk");
    obs.class_if(group.len() >= 3, "three-or-more-streams");
    classify_stream(&dec, &mut obs);
    obs.nontrivial = group.len() >= 2 && dec.iter().any(|d| d.chunks > 1);
    Verdict::Pass(obs)
}

/// Interleaved messages with Set Chunk Size messages BETWEEN their chunks: a new chunk size applies
/// to every chunk that follows it on the wire, also to the remaining chunks of messages that are
/// already in flight on other chunk streams (RTMP 1.0 section 5.4.1).
#[derive(Clone, Debug, Serialize, Deserialize)]
pub struct ResizeCase {
    pub cs0: u32,
    pub group: Vec<GMsg>,
    pub merge: Vec<u16>,
    /// (merge step before which the change is sent, new chunk size)
    pub resizes: Vec<(u8, u32)>,
    pub partition: Partition,
}

pub fn eval_resize(case: &ResizeCase) -> Verdict {
    let cs0 = case.cs0.clamp(1, 400);
    let mut enc = RefChunkEnc::new();
    let mut stream = Vec::new();
    let mut n_control = 0usize;
    if cs0 != 128 {
        stream.extend_from_slice(&enc.set_chunk_size(cs0, 0));
        n_control += 1;
    }
    let mut group: Vec<&GMsg> = Vec::new();
    for m in &case.group {
        if m.csid != 2 && !group.iter().any(|g| g.csid == m.csid) {
            group.push(m);
        }
    }
    // per message: the header of its first chunk, the header of its continuation chunks, its payload
    struct InFlight {
        first: Vec<u8>,
        cont: Vec<u8>,
        payload: Vec<u8>,
        off: usize,
    }
    let mut msgs: Vec<InFlight> = Vec::new();
    let mut ts = 0u32;
    for m in &group {
        ts = ts.wrapping_add(m.dts);
        let msg = build(m, ts, cs0);
        // encode at chunk size 1 to read off both headers, whatever the message length
        let keep = enc.chunk_size;
        enc.chunk_size = 1;
        let e = enc.encode(&msg, &EncOpts { csid: m.csid, want_fmt: m.want_fmt, three_byte: false, fmt0_continuation: false });
        enc.chunk_size = keep;
        let first = e.chunks[0][..e.chunks[0].len() - 1].to_vec();
        let cont = if e.chunks.len() > 1 { e.chunks[1][..e.chunks[1].len() - 1].to_vec() } else { Vec::new() };
        msgs.push(InFlight { first, cont, payload: msg.payload.clone(), off: 0 });
    }
    let mut cs_now = cs0 as usize;
    let mut step = 0usize;
    let mut resized_mid_message = false;
    loop {
        let live: Vec<usize> = (0..msgs.len()).filter(|i| msgs[*i].off < msgs[*i].payload.len()).collect();
        if live.is_empty() {
            break;
        }
        for (at, new_cs) in &case.resizes {
            if *at as usize == step {
                let new_cs = (*new_cs).clamp(1, 0x7FFF_FFFF);
                enc.chunk_size = cs_now;
                stream.extend_from_slice(&enc.set_chunk_size(new_cs, 0));
                n_control += 1;
                cs_now = new_cs as usize;
                if msgs.iter().any(|m| m.off > 0 && m.off < m.payload.len()) {
                    resized_mid_message = true;
                }
            }
        }
        let pick = if step < case.merge.len() { live[((case.merge[step] as usize) * live.len()) >> 16] } else { live[0] };
        step += 1;
        let m = &mut msgs[pick];
        let n = cs_now.min(m.payload.len() - m.off);
        stream.extend_from_slice(if m.off == 0 { &m.first } else { &m.cont });
        stream.extend_from_slice(&m.payload[m.off..m.off + n]);
        m.off += n;
    }
    let mut rd = RefChunkDec::new(true);
    let dec = match rd.feed(&stream).and_then(|d| rd.finish().map(|_| d)) {
        Ok(d) => d,
        Err(e) => return Verdict::Harness(format!("RefChunkDec rejects the reference stream with chunk-size changes between chunks: {}", e)),
    };
    if dec.len() != n_control + msgs.len() {
        return Verdict::Harness(format!("reference delivered {} messages, {} were sent", dec.len(), n_control + msgs.len()));
    }
    let mut want: Vec<Msg> = dec.iter().map(|d| d.msg.clone()).collect();
    let _ = &mut want;
    let (got, err) = lib_decode(&stream, &case.partition);
    if let Some(e) = err {
        vfail!("deserializer error after {} of {} messages on a conformant interleaved stream with chunk-size changes between chunks: {}", got.len(), want.len(), e);
    }
    if let Some(d) = first_difference(&got, &want) {
        vfail!("interleaved stream with chunk-size changes between chunks decoded differently: {}", d);
    }
    let mut obs = Obs::new();
    obs.class_if(resized_mid_message, "chunk-size-changed-while-a-message-was-in-flight");
    obs.class_if(dec.iter().any(|d| d.interleaved), "chunks-interleaved");
    obs.nontrivial = resized_mid_message;
    Verdict::Pass(obs)
}

fn resize_case() -> BoxedStrategy<ResizeCase> {
    (
        prop_oneof![2 => Just(128u32), 3 => 4u32..60, 1 => 60u32..400],
        proptest::collection::vec(gmsg(CSIDS), 2..5),
        proptest::collection::vec(any::<u16>(), 1..24),
        proptest::collection::vec((0u8..12, prop_oneof![3 => 1u32..40, 2 => 40u32..400, 2 => gen::pick(&[128u32, 129, 1000, 4096, 65_536, 0x7FFF_FFFF])]), 1..4),
        gen::partition(),
    )
        .prop_map(|(cs0, group, merge, resizes, partition)| ResizeCase { cs0, group, merge, resizes, partition })
        .boxed()
}

fn gmsg(csids: &'static [u32]) -> BoxedStrategy<GMsg> {
    (gen::pick(csids), 0u8..4, gen::type_id(), gen::pick(&[0u32, 1, 1, 1, 7]), gen::delta_u32(), 1u8..7, prop_oneof![3 => Just(0u8), 2 => 1u8..200], any::<u32>())
        .prop_map(|(csid, want_fmt, type_id, msid, dts, chunks, short_by, fill)| GMsg { csid, want_fmt, type_id, msid, dts, chunks, short_by, fill })
        .boxed()
}

// includes pairs that alias under plausible csid-decoding mistakes (264/520, 319/575, 65/320)
const CSIDS: &[u32] = &[3, 4, 5, 6, 8, 63, 64, 65, 264, 319, 320, 520, 575, 65599];

pub fn fuzz_strategy() -> BoxedStrategy<Case> {
    prop_oneof![case_strategy(false), case_strategy(true)].boxed()
}

fn case_strategy(overlap_free: bool) -> BoxedStrategy<Case> {
    let merge = if overlap_free {
        Just(Vec::<u16>::new()).boxed()
    } else {
        proptest::collection::vec(any::<u16>(), 1..24).boxed()
    };
    (
        prop_oneof![2 => Just(128u32), 3 => 1u32..40, 1 => 100u32..400],
        gen::foreign_ops(10, 0, 600),
        proptest::collection::vec(gmsg(CSIDS), 2..5),
        merge,
        gen::partition(),
    )
        .prop_map(|(chunk_size, pre, group, merge, partition)| Case { chunk_size, pre, group, merge, partition })
        .boxed()
}

pub fn spec() -> PropSpec {
    PropSpec {
        id: "C16",
        level: "exploration",
        rule: "2..4 multi-chunk messages (1..6 chunks each, chunk size 1..400) on distinct chunk stream ids, encoded by RefChunkEnc, preceded by a sequential prefix from the palette-based foreign generator on several chunk stream ids (incl. pairs that alias under plausible csid-decoding mistakes) so that compressed headers referring back across messages on other chunk streams are frequent; their chunks are merged by a generated choice sequence that keeps each message's own chunks in order (sub-check 'interleaved'), or sent message by message (sub-check 'overlap-free'); sub-check 'interleaved-with-chunk-size-changes': Set Chunk Size messages between the chunks of messages in flight (the new size applies to their remaining chunks); sub-check 'many-chunk-streams': a prefix on 63..4097 distinct chunk stream ids followed by compressed headers on older ones; generated partition. Expected deliveries come from RefChunkDec; in addition the stream is fed cut at every message end and the k-th message must be out after the k-th cut (delivery timing). Non-trivial = >= 2 group messages and at least one multi-chunk message; distinct = distinct case. The shared-reassembly-buffer defect this check first reported (D11) is repaired in /repo (c2ab1c5); the signature classification stays in the code so that a return of it is named, but nothing is set aside any more: every interleaving is enforced",
        assumptions: vec![
            "RefChunkDec/RefChunkEnc transcribe RTMP 1.0 section 5.3.1 (per-chunk-stream reassembly)",
            "D11 (shared reassembly buffer) is fixed; a failure with its old signature (everything before the first overlap point right, divergence at or after it) is a violation like any other",
        ],
        checks: vec![
            PropCheck::new("interleaved", |_| case_strategy(false), 60_000, 1_500_000, eval),
            PropCheck::new("overlap-free", |_| case_strategy(true), 60_000, 1_500_000, eval),
            PropCheck::new("interleaved-with-chunk-size-changes", |_| resize_case(), 30_000, 800_000, eval_resize),
            PropCheck::new("many-chunk-streams", |_| (gen::foreign_ops_many_streams(), proptest::collection::vec(gmsg(CSIDS), 2..4), gen::partition_large()).prop_map(|(pre, group, partition)| Case { chunk_size: 128, pre, group, merge: vec![], partition }).boxed(), 1_000, 30_000, eval),
        ],
    }
}
