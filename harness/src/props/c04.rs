//! C04 — AMF0 encode then decode is the identity (or the encoder reports an error).
//! Oracle: round-trip through the library, compared structurally (numbers bit-for-bit, objects as
//! maps, strings byte-for-byte), cursor must be at the end.

use crate::core::*;
use crate::gen::{self, AmfCfg};
use crate::refs::amf0::{self as ra, S, V};
use proptest::prelude::*;
use serde::{Deserialize, Serialize};
use std::io::Cursor;

#[derive(Clone, Debug, Serialize, Deserialize)]
pub struct Case {
    pub values: Vec<V>,
}

/// The same round trip, made right after a call on the same thread that the library refused half
/// way (an encoder / decoder must not carry anything over from a failed call).
#[derive(Clone, Debug, Serialize, Deserialize)]
pub struct AfterRefusal {
    pub kind: u8,
    pub case: Case,
}

pub fn eval_after_refusal(c: &AfterRefusal) -> Verdict {
    ra::disturb(c.kind);
    eval(&c.case)
}

fn has_empty_key(v: &V) -> bool {
    let mut found = false;
    ra::walk(v, &mut |n| {
        if let V::Obj(p) | V::Ecma(_, p) = n {
            if p.iter().any(|(k, _)| k.len() == 0) {
                found = true;
            }
        }
    });
    found
}

pub fn eval(case: &Case) -> Verdict {
    let input = ra::to_lib_list(&case.values);
    let empty_key = case.values.iter().any(has_empty_key);
    let mut obs = Obs::new();
    let bytes = match rml_amf0::serialize(&input) {
        Err(_) => {
            // C04 lets the encoder refuse; that it does not refuse representable values is C12/C19
            obs.class("encoder-refused");
            obs.class_if(case.values.iter().all(ra::representable), "encoder-refused-representable");
            return Verdict::Pass(obs);
        }
        Ok(b) => b,
    };
    obs.class("encoded-ok");
    let total = bytes.len() as u64;
    let mut cursor = Cursor::new(bytes);
    let outcome: Result<(), String> = match rml_amf0::deserialize(&mut cursor) {
        Err(e) => Err(format!("encoder succeeded ({} bytes) but decoding its output fails: {:?}", total, e)),
        Ok(out) => {
            if cursor.position() != total {
                Err(format!("decoder stopped at byte {} of {}", cursor.position(), total))
            } else if !ra::lib_list_eq(&out, &input) {
                Err(format!("decoded values differ: input {} decoded {}", ra::brief(&input), ra::brief(&out)))
            } else {
                Ok(())
            }
        }
    };
    if let Err(msg) = outcome {
        if empty_key {
            return Verdict::Known { sig: "empty-property-name", detail: msg };
        }
        return Verdict::Fail(msg);
    }
    let mut nested = false;
    let mut boundary = false;
    let mut special = false;
    let mut wide = false;
    let mut deep = false;
    for v in &case.values {
        ra::walk(v, &mut |n| match n {
            V::Obj(p) => {
                if p.iter().any(|(_, x)| ra::has_container(x)) {
                    nested = true;
                }
                if p.iter().any(|(k, _)| k.len() >= 65534) {
                    boundary = true;
                }
            }
            V::Arr(a) => {
                if a.iter().any(ra::has_container) {
                    nested = true;
                }
            }
            V::ArrRep(_, n) | V::ObjRep(_, n) => {
                if *n >= 1024 {
                    wide = true;
                }
            }
            V::Deep { depth, .. } => {
                nested = true;
                if *depth >= 64 {
                    deep = true;
                }
            }
            V::Str(s) => {
                if s.len() >= 65534 {
                    boundary = true;
                }
            }
            V::Num(b) => {
                let f = f64::from_bits(*b);
                if f.is_nan() || *b == 0x8000_0000_0000_0000 {
                    special = true;
                }
            }
            _ => {}
        });
    }
    obs.class_if(nested, "nested-container");
    obs.class_if(boundary, "boundary-length-string-or-name");
    obs.class_if(special, "nan-or-negative-zero");
    obs.class_if(wide, "container-with-1024-or-more-children");
    obs.class_if(deep, "chain-of-64-or-more-nested-containers");
    obs.class_if(case.values.iter().any(|v| ra::deepest(v) > 128), "nested-deeper-than-128");
    obs.class_if(empty_key, "empty-key-roundtripped");
    obs.class_if(case.values.is_empty(), "empty-list");
    obs.nontrivial = nested || boundary || special || wide;
    Verdict::Pass(obs)
}

fn with_empty_key() -> BoxedStrategy<Case> {
    let cfg = AmfCfg { wire: false, too_long: false, empty_names: true, max_depth: 2, chain: 0 };
    (
        gen::amf_values(AmfCfg::SMALL, 2),
        gen::amf_value(AmfCfg::SMALL),
        proptest::collection::vec((gen::amf_string(false, false), gen::amf_value(cfg)), 0..3),
        0u8..3,
        gen::amf_values(AmfCfg::SMALL, 2),
    )
        .prop_map(|(mut before, v, others, wrap, after)| {
            let mut pairs = vec![(S::lit(""), v)];
            for (k, v) in others {
                if !pairs.iter().any(|(n, _)| n.build() == k.build()) {
                    pairs.push((k, v));
                }
            }
            let mut node = V::Obj(pairs);
            for i in 0..wrap {
                node = if i % 2 == 0 { V::Arr(vec![node]) } else { V::Obj(vec![(S::lit("w"), node)]) };
            }
            before.push(node);
            before.extend(after);
            Case { values: before }
        })
        .boxed()
}

pub fn spec() -> PropSpec {
    PropSpec {
        id: "C04",
        level: "exploration",
        rule: "value lists (0..6 values) from the AMF0 generator: trees of depth <= 4 plus chains of up to 200 nested containers (around the library's limit of 128), wide containers (255..70000 children), f64 bit-pattern pool (NaN payloads, -0, subnormals, marker-like byte patterns), strings and property names with boundary lengths 65534/65535/65536/70000, lengths whose high byte is marker-like, control characters and NULs, multi-byte UTF-8, numeric names, sibling names (same name in another case / with a trailing NUL or space / a prefix); sub-check 'roundtrip-after-a-refused-call' makes a half-way refused encoder or decoder call on the same thread first; non-trivial = encoder returned Ok and the list contains a nested container, a string/name of >= 65534 bytes, or a NaN/-0; distinct = distinct value list. The empty property name (D10, repaired in /repo 94e5ae5: the encoder refuses it) is kept out of the main campaign and exercised by the sub-check 'empty-name', where a round-trip failure with the old signature is a violation again",
        assumptions: vec![
            "an Err from serialize is never a C04 violation (the statement allows the encoder to report an error); that representable values are not refused is asserted by C12/C19",
            "equality: numbers by bit pattern, objects as unordered maps, strings byte-for-byte",
        ],
        checks: vec![
            PropCheck::new("roundtrip", |_| gen::amf_values(AmfCfg::LIB_ANY, 6).prop_map(|values| Case { values }).boxed(), 200_000, 5_000_000, eval),
            PropCheck::new("roundtrip-after-a-refused-call", |_| (1u8..6, gen::amf_values(AmfCfg::LIB_ANY, 4)).prop_map(|(kind, values)| AfterRefusal { kind, case: Case { values } }).boxed(), 20_000, 500_000, eval_after_refusal),
            PropCheck::new("empty-name", |_| with_empty_key(), 5_000, 100_000, eval),
        ],
    }
}
