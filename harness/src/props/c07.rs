//! C07 — serializer output is a spec-conformant chunk stream.
//! Oracle: RefChunkDec in strict mode (independent, specification-following decoder).

use crate::core::*;
use crate::drive::*;
use crate::gen::{self, SeqCfg};
use proptest::prelude::*;
use serde::{Deserialize, Serialize};

#[derive(Clone, Debug, Serialize, Deserialize)]
pub struct Case {
    pub seq: Seq,
}

pub fn eval(case: &Case) -> Verdict {
    let ser = match run_serializer(&case.seq) {
        Ok(s) => s,
        Err(e) => return Verdict::Fail(e),
    };
    let stream: Vec<u8> = ser.packets.iter().flat_map(|p| p.0.iter().copied()).collect();
    let (dec, _map) = match ref_decode(true, &stream) {
        Ok(x) => x,
        Err(e) => vfail!("serializer output is not a conformant chunk stream: {}", e),
    };
    let got: Vec<crate::refs::chunk::Msg> = dec.iter().map(|d| d.msg.clone()).collect();
    if let Some(d) = first_difference(&got, &ser.expected) {
        vfail!("a conformant decoder reads different messages: {}", d);
    }
    // byte-level requirements not derivable from decoding alone
    let mut end = 0u64;
    for (i, (p, d)) in ser.packets.iter().zip(dec.iter()).enumerate() {
        end += p.0.len() as u64;
        vensure!(d.end == end, "packet {} does not end where message {} ends (packet end {}, message end {}): a packet must contain whole messages only", i, i, end, d.end);
        vensure!(d.csid >= 2 && d.csid <= 65599, "message {} uses illegal chunk stream id {}", i, d.csid);
        if d.msg.type_id == 1 {
            vensure!(d.first_fmt == 0 && d.csid == 2 && d.msg.msid == 0, "Set Chunk Size message travels as format {} on chunk stream {} / message stream {}", d.first_fmt, d.csid, d.msg.msid);
        }
        if let Op::Msg(m) = &case.seq.ops[i] {
            if m.force {
                vensure!(d.first_fmt == 0, "message {} was forced uncompressed but its first chunk has format {}", i, d.first_fmt);
            }
        }
    }
    let mut obs = Obs::new();
    classify_stream(&dec, &mut obs);
    let compressed = dec.iter().any(|d| d.first_fmt != 0);
    let multi = dec.iter().any(|d| d.chunks > 1);
    let chunk_change = case.seq.ops.iter().any(|o| matches!(o, Op::Chunk(_)));
    obs.nontrivial = ser.expected.len() >= 2 && (compressed || multi || chunk_change);
    Verdict::Pass(obs)
}

fn large_cases(_ctx: &Ctx) -> Vec<Case> {
    let mut v = Vec::new();
    for (i, (len, cs)) in [(65_536u32, 128u32), (70_000, 1), (16_777_215, 4096), (16_777_215, 0x7FFF_FFFF), (16_777_214, 65_536)].into_iter().enumerate() {
        let big = MsgSpec { type_id: 8, msid: 1, dts: 0xFF_FFFF + i as u32, len, fill: i as u32, force: false, drop: false };
        let small = MsgSpec { type_id: 8, msid: 1, dts: 0xFF_FFFF, len: 3, fill: 9, force: false, drop: false };
        v.push(Case { seq: Seq { ops: vec![Op::Msg(small.clone()), Op::Chunk(cs), Op::Msg(big.clone()), Op::Msg(small.clone()), Op::Msg(MsgSpec { force: true, ..big }), Op::Msg(small)] } });
    }
    v
}

pub fn spec() -> PropSpec {
    PropSpec {
        id: "C07",
        level: "exploration",
        rule: "message sequences as in C01 (palette generator, chunk-size changes, flags; sub-check 'many-message-streams': 28..700 message streams with one video and one audio message each on one serializer, then more on earlier streams); the concatenated packets are parsed by RefChunkDec in strict mode (legal minimal csids, extended field exactly when the 24-bit field is 0xFFFFFF and never below it, format 1/2 never inside a message, format-0 continuation only when identical, Set Chunk Size legal and on csid 2 / stream 0, nothing left over) and must yield exactly the input messages; packet boundaries must coincide with message boundaries. Non-trivial = >= 2 messages and (a compressed header or a multi-chunk message or a chunk-size change); distinct = distinct sequence",
        assumptions: vec![
            "RefChunkDec is trusted as the transcription of RTMP 1.0 section 5.3.1",
            "a format-0 header on a continuation chunk (what force_uncompressed produces) is conformant when all its fields equal the message it continues (the specification says SHOULD use format 3)",
        ],
        checks: vec![
            PropCheck::new("strict-decode", |ctx| {
                let cfg = SeqCfg { max_ops: if ctx.tier == Tier::Thorough { 40 } else { 12 }, ..SeqCfg::DEFAULT };
                gen::msg_seq(cfg).prop_map(|seq| Case { seq }).boxed()
            }, 200_000, 5_000_000, eval),
            PropCheck::new("strict-decode-kilobyte-chunks", |_| gen::msg_seq_large(6).prop_map(|seq| Case { seq }).boxed(), 6_000, 200_000, eval),
            PropCheck::new("many-message-streams", |_| gen::msg_seq_many_msids().prop_map(|seq| Case { seq }).boxed(), 600, 20_000, eval),
            EnumCheck::new("large", false, large_cases, eval),
        ],
    }
}
