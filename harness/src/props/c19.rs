//! C19 — every configuration value is either honoured or refused, never a hang.
//! Each case runs in a worker process with an allocation cap and a watchdog in the parent; the
//! oracle is "out-of-protocol => some call returns Err; accepted => the codec / session works".

use crate::core::*;
use crate::drive::*;
use crate::gen::{self, fill_bytes, Partition};
use crate::isolate::IsoCheck;
use crate::props::c02;
use crate::refs::amf0 as ra;
use crate::refs::chunk::Msg;
use crate::refs::msg::RM;
use crate::sess::*;
use bytes::Bytes;
use proptest::prelude::*;
use rml_amf0::Amf0Value;
use rml_rtmp::chunk_io::{ChunkDeserializer, ChunkSerializer};
use rml_rtmp::sessions::*;
use rml_rtmp::time::RtmpTimestamp;
use serde::{Deserialize, Serialize};
use std::sync::Arc;
use std::time::Duration;

#[derive(Clone, Debug, Serialize, Deserialize)]
pub enum Case {
    /// ChunkSerializer::set_max_chunk_size(size) then serialize
    SerChunk { size: u32, len: u32 },
    /// ChunkDeserializer::set_max_chunk_size(size) then a message
    DeChunk { size: u64, len: u32 },
    /// serialize a payload of `len` bytes at chunk size `chunk`
    Payload { len: u32, chunk: u32 },
    /// rml_amf0::serialize of a string (or a property name) of `len` bytes
    AmfString { len: u32, as_name: bool, multibyte: bool },
    Server { chunk: u32, window: u32, bandwidth: u32, version_len: u32, bwdone: bool, media_len: u32 },
    Client { chunk: u32, window: u32, buffer: u32, version_len: u32, tc_url_len: Option<u32>, app_len: u32, key_len: u32, media_len: u32 },
}

const MAX_CHUNK: u64 = 0x7FFF_FFFF;
const MAX_MSG: u32 = 16_777_215;

fn legal_chunk(n: u64) -> bool {
    n >= 1 && n <= MAX_CHUNK
}

fn mini_roundtrip(ser: &mut ChunkSerializer, de: &mut ChunkDeserializer, lens: &[u32], what: &str) -> Result<(), String> {
    let mut out = Vec::new();
    for (i, len) in lens.iter().enumerate() {
        let msg = Msg { ts: 1000 + i as u32 * 40, type_id: 9, msid: 1, payload: fill_bytes(i as u32 + 1, *len as usize) };
        let p = ser.serialize(&to_payload(&msg), false, false).map_err(|e| format!("{}: serialize of {} bytes failed: {:?}", what, len, e))?;
        if p.bytes.is_empty() {
            return Err(format!("{}: empty packet", what));
        }
        if let Some(e) = lib_feed(de, &p.bytes, &mut out) {
            return Err(format!("{}: decoding failed: {}", what, e));
        }
        if out.last() != Some(&msg) {
            return Err(format!("{}: message {} of {} bytes did not round-trip (got {:?})", what, i, len, out.last().map(|m| m.brief())));
        }
    }
    Ok(())
}

fn string_of(len: u32, multibyte: bool) -> String {
    if multibyte {
        let mut s = "é".repeat((len / 2) as usize);
        if len % 2 == 1 {
            s.push('a');
        }
        s
    } else {
        "v".repeat(len as usize)
    }
}

pub fn eval(c: &Case) -> Verdict {
    let mut obs = Obs::new();
    let (v, peak) = crate::alloc::measure(|| eval_inner(c, &mut obs));
    if let Verdict::Pass(mut obs) = v {
        // bounded memory: one copy of the largest payload in each of a handful of buffers
        let payload = match c {
            Case::SerChunk { len, .. } | Case::DeChunk { len, .. } | Case::Payload { len, .. } => *len as usize,
            Case::AmfString { len, .. } => *len as usize,
            Case::Server { media_len, version_len, .. } => (*media_len + *version_len) as usize,
            Case::Client { media_len, version_len, tc_url_len, app_len, key_len, .. } => (*media_len + *version_len + tc_url_len.unwrap_or(0) + *app_len + *key_len) as usize,
        };
        let bound = 64 * payload + (64 << 20);
        vensure!(peak <= bound, "peak heap {} bytes exceeds the bound 64 x payload + 64 MiB = {} for {:?}", peak, bound, c);
        obs.count("peak-heap-bytes", peak as u64);
        return Verdict::Pass(obs);
    }
    v
}

/// Everything a session emits is read twice: by the reference decoder (OutDec) and by the
/// library's own ChunkDeserializer, which must deliver the same messages (an accepted
/// configuration must give a stream the library itself can read, whatever the chunk size).
struct Both {
    outdec: OutDec,
    libde: ChunkDeserializer,
    ref_msgs: Vec<Msg>,
    lib_msgs: Vec<Msg>,
}

impl Both {
    fn new() -> Both {
        Both { outdec: OutDec::new(), libde: ChunkDeserializer::new(), ref_msgs: Vec::new(), lib_msgs: Vec::new() }
    }

    fn packet(&mut self, bytes: &[u8], droppable: bool) -> Result<Vec<OutMsg>, String> {
        let ms = self.outdec.packet(bytes, droppable)?;
        for m in &ms {
            self.ref_msgs.push(m.dec.msg.clone());
        }
        if let Some(e) = lib_feed(&mut self.libde, bytes, &mut self.lib_msgs) {
            return Err(format!("the library's own deserializer cannot read what the session emitted: {}", e));
        }
        if let Some(d) = first_difference(&self.lib_msgs, &self.ref_msgs) {
            return Err(format!("the library's own deserializer reads the session's output differently from a conformant decoder: {}", d));
        }
        Ok(ms)
    }
}

fn near(v: u64, limits: &[u64]) -> bool {
    limits.iter().any(|l| (v as i128 - *l as i128).abs() <= 1)
}

fn eval_inner(c: &Case, obs: &mut Obs) -> Verdict {
    match c {
        Case::SerChunk { size, len } => {
            let mut ser = ChunkSerializer::new();
            let mut de = ChunkDeserializer::new();
            if let Err(e) = mini_roundtrip(&mut ser, &mut de, &[10, 300], "before the change") {
                return Verdict::Fail(e);
            }
            let r = ser.set_max_chunk_size(*size, RtmpTimestamp::new(5));
            let legal = legal_chunk(*size as u64);
            match (&r, legal) {
                (Err(_), true) => vfail!("set_max_chunk_size({}) refused a legal chunk size", size),
                (Ok(_), false) => vfail!("set_max_chunk_size({}) accepted a chunk size outside 1..=2^31-1", size),
                _ => {}
            }
            if let Ok(p) = r {
                let mut out = Vec::new();
                if let Some(e) = lib_feed(&mut de, &p.bytes, &mut out) {
                    vfail!("the Set Chunk Size packet for {} cannot be decoded: {}", size, e);
                }
                vensure!(out.len() == 1 && out[0].type_id == 1 && out[0].payload == size.to_be_bytes().to_vec(), "Set Chunk Size packet decodes to {:?}", out.iter().map(|m| m.brief()).collect::<Vec<_>>());
                vensure!(de.get_max_chunk_size() == *size as usize, "receiver did not switch to chunk size {}", size);
            }
            // refused or accepted: the same objects must keep working
            let big = (*len).min(200_000);
            if let Err(e) = mini_roundtrip(&mut ser, &mut de, &[3, big, (*size).saturating_add(1).min(5000), 0], &format!("after set_max_chunk_size({}) -> {}", size, if legal { "accepted" } else { "refused" })) {
                return Verdict::Fail(e);
            }
            obs.class(if legal { "serializer-chunk-size-accepted" } else { "serializer-chunk-size-refused-then-continued" });
            obs.nontrivial = near(*size as u64, &[0, 1, MAX_CHUNK, 1 << 31, u32::MAX as u64]) || !legal;
        }
        Case::DeChunk { size, len } => {
            let mut de = ChunkDeserializer::new();
            let r = de.set_max_chunk_size(*size as usize);
            let legal = legal_chunk(*size);
            match (&r, legal) {
                (Err(_), true) => vfail!("ChunkDeserializer::set_max_chunk_size({}) refused a legal chunk size", size),
                (Ok(_), false) => vfail!("ChunkDeserializer::set_max_chunk_size({}) accepted a chunk size outside 1..=2^31-1", size),
                _ => {}
            }
            let effective = if legal { *size as usize } else { 128 };
            vensure!(de.get_max_chunk_size() == effective, "get_max_chunk_size() = {} after set_max_chunk_size({}) -> {:?}", de.get_max_chunk_size(), size, r.is_ok());
            // a foreign stream encoded at the effective chunk size must decode
            let mut enc = crate::refs::chunk::RefChunkEnc::new();
            enc.chunk_size = effective;
            let mut stream = Vec::new();
            let mut want = Vec::new();
            for (i, l) in [5u32, (*len).min(100_000), (effective as u32).saturating_add(1).min(3000)].iter().enumerate() {
                let m = Msg { ts: 10 * i as u32, type_id: 8, msid: 1, payload: fill_bytes(i as u32, *l as usize) };
                let e = enc.encode(&m, &crate::refs::chunk::EncOpts { csid: 4, want_fmt: 3, three_byte: false, fmt0_continuation: false });
                stream.extend(e.chunks.concat());
                want.push(m);
            }
            let mut got = Vec::new();
            if let Some(e) = lib_feed(&mut de, &stream, &mut got) {
                vfail!("after set_max_chunk_size({}) a stream chunked at {} fails: {}", size, effective, e);
            }
            if let Some(d) = first_difference(&got, &want) {
                vfail!("after set_max_chunk_size({}) a stream chunked at {} decodes wrongly: {}", size, effective, d);
            }
            obs.class(if legal { "deserializer-chunk-size-accepted" } else { "deserializer-chunk-size-refused-then-continued" });
            obs.nontrivial = near(*size, &[0, 1, MAX_CHUNK, 1 << 31, u32::MAX as u64, 1 << 32]) || !legal;
        }
        Case::Payload { len, chunk } => {
            let mut ser = ChunkSerializer::new();
            let mut de = ChunkDeserializer::new();
            let chunk = (*chunk).clamp(1, MAX_CHUNK as u32);
            match ser.set_max_chunk_size(chunk, RtmpTimestamp::new(0)) {
                Ok(p) => {
                    let mut o = Vec::new();
                    if let Some(e) = lib_feed(&mut de, &p.bytes, &mut o) {
                        vfail!("Set Chunk Size packet undecodable: {}", e);
                    }
                }
                Err(e) => vfail!("legal chunk size {} refused: {:?}", chunk, e),
            }
            let msg = Msg { ts: 77, type_id: 9, msid: 1, payload: fill_bytes(3, *len as usize) };
            let r = ser.serialize(&to_payload(&msg), false, false);
            if *len > MAX_MSG {
                vensure!(r.is_err(), "a payload of {} bytes (> 16777215) was accepted", len);
                obs.class("payload-too-long-refused");
            } else {
                match r {
                    Err(e) => vfail!("a payload of {} bytes (<= 16777215) was refused: {:?}", len, e),
                    Ok(p) => {
                        let mut o = Vec::new();
                        if let Some(e) = lib_feed(&mut de, &p.bytes, &mut o) {
                            vfail!("payload of {} bytes at chunk size {} undecodable: {}", len, chunk, e);
                        }
                        vensure!(o.len() == 1 && o[0] == msg, "payload of {} bytes at chunk size {} did not round-trip", len, chunk);
                    }
                }
                obs.class("payload-accepted");
            }
            if let Err(e) = mini_roundtrip(&mut ser, &mut de, &[4, 1000], "after the large payload") {
                return Verdict::Fail(e);
            }
            obs.nontrivial = near(*len as u64, &[MAX_MSG as u64, MAX_MSG as u64 + 1]) || *len > MAX_MSG;
        }
        Case::AmfString { len, as_name, multibyte } => {
            let s = string_of(*len, *multibyte);
            let n = s.len();
            let value = if *as_name {
                let mut m = std::collections::HashMap::new();
                m.insert(s.clone(), Amf0Value::Number(1.0));
                Amf0Value::Object(m)
            } else {
                Amf0Value::Utf8String(s.clone())
            };
            let input = vec![Amf0Value::Boolean(true), value, Amf0Value::Null];
            let r = rml_amf0::serialize(&input);
            if n > 65_535 || (*as_name && n == 0) {
                if n > 65_535 {
                    vensure!(r.is_err(), "an AMF0 {} of {} bytes (> 65535) was accepted", if *as_name { "property name" } else { "string" }, n);
                    obs.class("amf0-string-too-long-refused");
                }
            } else {
                match r {
                    Err(e) => vfail!("an AMF0 {} of {} bytes was refused: {:?}", if *as_name { "property name" } else { "string" }, n, e),
                    Ok(b) => match rml_amf0::deserialize(&mut std::io::Cursor::new(b)) {
                        Ok(out) => vensure!(ra::lib_list_eq(&out, &input), "AMF0 {} of {} bytes did not round-trip", if *as_name { "property name" } else { "string" }, n),
                        Err(e) => vfail!("AMF0 {} of {} bytes encoded but undecodable: {:?}", if *as_name { "property name" } else { "string" }, n, e),
                    },
                }
                obs.class("amf0-string-accepted");
            }
            obs.nontrivial = near(n as u64, &[65_535, 65_536]) || n > 65_535;
        }
        Case::Server { chunk, window, bandwidth, version_len, bwdone, media_len } => {
            let version = string_of(*version_len, false);
            let cfg = ServerSessionConfig { fms_version: version, chunk_size: *chunk, peer_bandwidth: *bandwidth, window_ack_size: *window, send_on_bw_done_message_on_start: *bwdone };
            let r = ServerSession::new(cfg);
            let chunk_ok = legal_chunk(*chunk as u64);
            let version_ok = *version_len <= 65_535;
            match r {
                Err(e) => {
                    vensure!(!chunk_ok, "ServerSession::new refused an acceptable configuration (chunk {}, version {} bytes): {:?}", chunk, version_len, e);
                    obs.class("server-config-refused-by-constructor");
                }
                Ok((mut s, init)) => {
                    vensure!(chunk_ok, "ServerSession::new accepted chunk size {} (outside 1..=2^31-1)", chunk);
                    // drive connect + accept with the reference peer
                    let mut outdec = Both::new();
                    let (mut a_chunk, mut a_window, mut a_bw, mut a_bwdone) = (Vec::new(), Vec::new(), Vec::new(), 0u32);
                    for (b, d) in split_server(init).packets {
                        match outdec.packet(&b, d) {
                            Ok(ms) => {
                                for m in ms {
                                    match &m.rm {
                                        Ok(RM::SetChunkSize(v)) => a_chunk.push(*v),
                                        Ok(RM::WindowAck(v)) => a_window.push(*v),
                                        Ok(RM::PeerBw(v, _)) => a_bw.push(*v),
                                        Ok(RM::Command(n, _, _, _)) if n.build() == "onBWDone" => a_bwdone += 1,
                                        _ => {}
                                    }
                                }
                            }
                            Err(e) => vfail!("constructor packets undecodable: {}", e),
                        }
                    }
                    // honoured = it reaches the peer
                    vensure!(a_chunk == vec![*chunk], "configured chunk_size {} accepted but not announced by the server (announced: {:?})", chunk, a_chunk);
                    vensure!(a_window == vec![*window], "configured window_ack_size {} accepted but not announced by the server (announced: {:?})", window, a_window);
                    vensure!(a_bw == vec![*bandwidth], "configured peer_bandwidth {} accepted but not announced by the server (announced: {:?})", bandwidth, a_bw);
                    vensure!(a_bwdone == *bwdone as u32, "send_on_bw_done_message_on_start = {} but {} onBWDone command(s) were sent", bwdone, a_bwdone);
                    let mut peer = PeerEnc::new();
                    let connect = peer.send(&command("connect", 1.0, obj(vec![("app", st("live"))]), vec![]), 0, 0);
                    let evs = match s.handle_input(&connect) {
                        Ok(r) => split_server(r).events,
                        Err(e) => vfail!("connect failed: {:?}", e),
                    };
                    let id = match evs.iter().find_map(|e| if let ServerSessionEvent::ConnectionRequested { request_id, .. } = e { Some(*request_id) } else { None }) {
                        Some(i) => i,
                        None => vfail!("connect not surfaced"),
                    };
                    let acc = s.accept_request(id);
                    if !version_ok {
                        vensure!(acc.is_err(), "a version string of {} bytes (> 65535) cannot be expressed in AMF0, yet accepting the connection succeeded", version_len);
                        obs.class("server-version-too-long-refused-at-accept");
                    } else {
                        match acc {
                            Err(e) => vfail!("accept_request failed for an acceptable configuration: {:?}", e),
                            Ok(r) => {
                                for (b, d) in split_server(r).packets {
                                    match outdec.packet(&b, d) {
                                        Ok(ms) => {
                                            for m in ms {
                                                if let Ok(RM::Command(n, _, o, _)) = &m.rm {
                                                    if n.build() == "_result" {
                                                        vensure!(prop(o, "fmsVer").and_then(as_str).map(|v| v.len()) == Some(*version_len as usize), "connect result does not carry the configured version string");
                                                    }
                                                }
                                            }
                                        }
                                        Err(e) => vfail!("connect result undecodable: {}", e),
                                    }
                                }
                            }
                        }
                        // accepted value => a working session (C02 holds for it)
                        let sc = c02::Scenario {
                            publish: false,
                            app: "live".to_string(),
                            key: "k".to_string(),
                            publish_type: 0,
                            c_chunk: 4096,
                            c_window: 2_500_000,
                            c_buffer: 1000,
                            tc_url: None,
                            s_chunk: *chunk,
                            s_window: *window,
                            s_bandwidth: *bandwidth,
                            s_bwdone: *bwdone,
                            media: vec![c02::Media::Video { len: *media_len, ts: 40, drop: false, fill: 1 }, c02::Media::Audio { len: 3, ts: 41, drop: true, fill: 2 }],
                            schedule: vec![],
                            drain: 997,
                            age_c: 0,
                            age_s: 0,
                            second: None,
                        };
                        // three deliveries: large pieces, byte by byte, small pieces (a configuration
                        // value may only matter for one way the peer's reads fall)
                        for drain in [997u16, 1, 7] {
                            let sc = c02::Scenario { drain, ..sc.clone() };
                            match c02::eval(&sc) {
                                Verdict::Pass(_) => {}
                                Verdict::Fail(m) => vfail!("server configuration chunk={} window={} bandwidth={} was accepted but the session does not work (delivery in pieces of {}): {}", chunk, window, bandwidth, drain, m),
                                other => return other,
                            }
                        }
                        obs.class("server-config-accepted-and-working");
                    }
                }
            }
            obs.nontrivial = near(*chunk as u64, &[0, 1, MAX_CHUNK, 1 << 31, u32::MAX as u64]) || near(*version_len as u64, &[65_535, 65_536]) || near(*window as u64, &[0, u32::MAX as u64]);
        }
        Case::Client { chunk, window, buffer, version_len, tc_url_len, app_len, key_len, media_len } => {
            let cfg = ClientSessionConfig { flash_version: string_of(*version_len, false), playback_buffer_length_ms: *buffer, window_ack_size: *window, chunk_size: *chunk, tc_url: tc_url_len.map(|n| string_of(n, false)) };
            let chunk_ok = legal_chunk(*chunk as u64);
            let strings_ok = *version_len <= 65_535 && tc_url_len.unwrap_or(0) <= 65_535 && *app_len <= 65_535;
            let mut refused = false;
            let (mut cs, init) = match ClientSession::new(cfg) {
                Ok(x) => x,
                Err(e) => {
                    vensure!(!chunk_ok || !strings_ok, "ClientSession::new refused an acceptable configuration: {:?}", e);
                    obs.class("client-config-refused-by-constructor");
                    obs.nontrivial = true;
                    return Verdict::Pass(std::mem::take(obs));
                }
            };
            let mut outdec = Both::new();
            for (b, d) in split_client(init).packets {
                if let Err(e) = outdec.packet(&b, d) {
                    vfail!("constructor packets undecodable: {}", e);
                }
            }
            let app = string_of((*app_len).max(1), false);
            match cs.request_connection(app.clone()) {
                Err(e) => {
                    vensure!(!strings_ok, "request_connection refused although every string fits AMF0: {:?}", e);
                    refused = true;
                    obs.class("client-string-too-long-refused-at-connect");
                    // a refused request must leave nothing behind: an answer to the transaction id
                    // it would have used is an answer to an unknown transaction
                    let mut peer = PeerEnc::new();
                    let result = peer.send(&command("_result", 1.0, obj(vec![("fmsVer", st("FMS/3,0,1,123"))]), vec![obj(vec![("code", st("NetConnection.Connect.Success"))])]), 0, 0);
                    match cs.handle_input(&result) {
                        Ok(r) => {
                            let evs = split_client(r).events;
                            vensure!(!evs.iter().any(|e| matches!(e, ClientSessionEvent::ConnectionRequestAccepted)), "request_connection was refused ({:?}), yet a later _result for its transaction id makes the client connected", e);
                        }
                        Err(_) => {}
                    }
                    vensure!(cs.request_playback("k".to_string()).is_err(), "the client accepts request_playback although its connection request was refused");
                }
                Ok(r) => {
                    vensure!(strings_ok, "a connect command carrying a string longer than 65535 bytes was emitted");
                    let mut seen_connect = false;
                    for (b, d) in split_client(vec![r]).packets {
                        match outdec.packet(&b, d) {
                            Ok(ms) => {
                                for m in ms {
                                    if let Ok(RM::Command(n, _, o, _)) = &m.rm {
                                        if n.build() == "connect" {
                                            seen_connect = true;
                                            // honoured = it reaches the peer: application name, version string, tcUrl
                                            vensure!(prop(o, "app").and_then(as_str).map(|v| v.len()) == Some(app.len()), "connect does not carry the requested application name ({} bytes)", app.len());
                                            vensure!(prop(o, "flashVer").and_then(as_str).map(|v| v.len()) == Some(*version_len as usize), "connect does not carry the configured flash_version ({} bytes): {:?}", version_len, prop(o, "flashVer").and_then(as_str).map(|v| v.len()));
                                            if let Some(n) = tc_url_len {
                                                vensure!(prop(o, "tcUrl").and_then(as_str).map(|v| v.len()) == Some(*n as usize), "connect does not carry the configured tc_url ({} bytes)", n);
                                            }
                                        }
                                    }
                                }
                            }
                            Err(e) => vfail!("connect packet undecodable: {}", e),
                        }
                    }
                    vensure!(seen_connect, "request_connection succeeded without emitting a connect command");
                }
            }
            if !refused {
                // the server accepts: this is where the client applies its chunk size
                let mut peer = PeerEnc::new();
                // the server's greeting first; it happens to announce the very values the client is
                // configured with (a configuration value is honoured whatever the peer's values are)
                let mut greeting = if chunk_ok { peer.set_chunk_size(*chunk, 0) } else { Vec::new() };
                greeting.extend(peer.send(&RM::WindowAck((*window).max(1)), 0, 0));
                greeting.extend(peer.send(&RM::PeerBw(*window, 2), 0, 0));
                if let Err(e) = cs.handle_input(&greeting) {
                    vfail!("the server's greeting (window {}) failed: {:?}", window, e);
                }
                let result = peer.send(&command("_result", 1.0, obj(vec![("fmsVer", st("FMS/3,0,1,123"))]), vec![obj(vec![("code", st("NetConnection.Connect.Success"))])]), 0, 0);
                match cs.handle_input(&result) {
                    Err(e) => {
                        vensure!(!chunk_ok, "the connect result failed although the configured chunk size {} is legal: {:?}", chunk, e);
                        refused = true;
                        obs.class("client-chunk-size-refused-when-applied");
                    }
                    Ok(r) => {
                        vensure!(chunk_ok, "the client applied chunk size {} (outside 1..=2^31-1) without an error", chunk);
                        let mut announced_window: Vec<u32> = Vec::new();
                        let mut announced_chunk: Vec<u32> = Vec::new();
                        for (b, d) in split_client(r).packets {
                            match outdec.packet(&b, d) {
                                Ok(ms) => {
                                    for m in ms {
                                        match &m.rm {
                                            Ok(RM::WindowAck(v)) => announced_window.push(*v),
                                            Ok(RM::SetChunkSize(v)) => announced_chunk.push(*v),
                                            _ => {}
                                        }
                                    }
                                }
                                Err(e) => vfail!("packets after the connect result undecodable: {}", e),
                            }
                        }
                        // honoured = it reaches the peer: the window and the chunk size are announced
                        vensure!(announced_window == vec![*window], "the configured window_ack_size {} is neither refused nor announced to the server after the connection was accepted (announced: {:?}; the server had announced the same value)", window, announced_window);
                        vensure!(announced_chunk == vec![*chunk], "the configured chunk_size {} is neither refused nor announced after the connection was accepted (announced: {:?})", chunk, announced_chunk);
                        // playback_buffer_length_ms: announced for the stream the server returns
                        if let Ok(r) = cs.request_playback("k".to_string()) {
                            let mut tid = None;
                            for (b, d) in split_client(vec![r]).packets {
                                match outdec.packet(&b, d) {
                                    Ok(ms) => {
                                        for m in ms {
                                            if let Ok(RM::Command(n, t, _, _)) = &m.rm {
                                                if n.build() == "createStream" {
                                                    tid = Some(f64::from_bits(*t));
                                                }
                                            }
                                        }
                                    }
                                    Err(e) => vfail!("createStream packet undecodable: {}", e),
                                }
                            }
                            if let Some(t) = tid {
                                let created = peer.send(&command("_result", t, ra::V::Null, vec![num(7.0)]), 0, 0);
                                match cs.handle_input(&created) {
                                    Ok(r) => {
                                        let mut buffers: Vec<Vec<u32>> = Vec::new();
                                        for (b, d) in split_client(r).packets {
                                            match outdec.packet(&b, d) {
                                                Ok(ms) => {
                                                    for m in ms {
                                                        if let Ok(RM::UserControl(3, f)) = &m.rm {
                                                            buffers.push(f.clone());
                                                        }
                                                    }
                                                }
                                                Err(e) => vfail!("packets after the createStream result undecodable: {}", e),
                                            }
                                        }
                                        vensure!(buffers == vec![vec![7, *buffer]], "the configured playback_buffer_length_ms {} is not announced for the played stream (SetBufferLength events seen: {:?})", buffer, buffers);
                                    }
                                    Err(e) => vfail!("createStream result failed: {:?}", e),
                                }
                                let _ = cs.stop_playback();
                            }
                        }
                    }
                }
            }
            if !refused {
                let key = string_of((*key_len).max(1), false);
                if *key_len <= 60_000 && *app_len <= 60_000 {
                    let sc = c02::Scenario {
                        publish: true,
                        app: app.clone(),
                        key,
                        publish_type: 1,
                        c_chunk: *chunk,
                        c_window: *window,
                        c_buffer: *buffer,
                        tc_url: tc_url_len.map(|n| string_of(n, false)),
                        s_chunk: 4096,
                        s_window: 1_000_000,
                        s_bandwidth: 1,
                        s_bwdone: false,
                        media: vec![c02::Media::Video { len: *media_len, ts: 40, drop: false, fill: 1 }, c02::Media::Audio { len: 3, ts: 41, drop: true, fill: 2 }],
                        schedule: vec![],
                        drain: 1499,
                        age_c: 0,
                        age_s: 0,
                        second: None,
                    };
                    for drain in [1499u16, 1, 7] {
                        let sc = c02::Scenario { drain, ..sc.clone() };
                        match c02::eval(&sc) {
                            Verdict::Pass(_) => {}
                            Verdict::Fail(m) => vfail!("client configuration chunk={} window={} was accepted but the session does not work (delivery in pieces of {}): {}", chunk, window, drain, m),
                            other => return other,
                        }
                    }
                }
                obs.class("client-config-accepted-and-working");
            }
            obs.nontrivial = near(*chunk as u64, &[0, 1, MAX_CHUNK, 1 << 31, u32::MAX as u64]) || near(*version_len as u64, &[65_535, 65_536]) || tc_url_len.map(|n| near(n as u64, &[65_535, 65_536])).unwrap_or(false) || near(*app_len as u64, &[65_535, 65_536]);
        }
    }
    let _ = (Bytes::new(), Partition::Whole);
    Verdict::Pass(std::mem::take(obs))
}

fn chunk_u32() -> BoxedStrategy<u32> {
    prop_oneof![4 => gen::pick(&[0u32, 1, 2, 127, 128, 129, 4096, 65_535, 0xFF_FFFF, 0x100_0000, 0x7FFF_FFFE, 0x7FFF_FFFF, 0x8000_0000, 0x8000_0001, 0xFFFF_FFFF]), 1 => any::<u32>(), 1 => 1u32..5000].boxed()
}

fn str_len() -> BoxedStrategy<u32> {
    prop_oneof![3 => gen::pick(&[0u32, 1, 14, 65_534, 65_535, 65_536, 65_537, 100_000]), 2 => 1u32..64].boxed()
}

pub fn case() -> BoxedStrategy<Case> {
    prop_oneof![
        3 => (chunk_u32(), prop_oneof![0u32..2000, 2000u32..200_000]).prop_map(|(size, len)| Case::SerChunk { size, len }),
        3 => (prop_oneof![3 => chunk_u32().prop_map(|x| x as u64), 1 => gen::pick(&[1u64 << 32, (1u64 << 32) + 1, u64::MAX, 1u64 << 63])], prop_oneof![0u32..2000, 2000u32..100_000]).prop_map(|(size, len)| Case::DeChunk { size, len }),
        2 => (prop_oneof![2 => gen::pick(&[16_777_214u32, 16_777_215, 16_777_216, 16_777_217, 20_000_000]), 1 => 16_000_000u32..17_500_000], gen::pick(&[128u32, 4096, 65_536, 0x7FFF_FFFF, 16_777_215, 16_777_216, 128, 4096, 65_536, 0x7FFF_FFFF, 1, 2])).prop_map(|(len, chunk)| Case::Payload { len, chunk }),
        3 => (prop_oneof![3 => gen::pick(&[0u32, 1, 65_534, 65_535, 65_536, 65_537, 131_071, 131_072, 200_000]), 1 => 65_000u32..66_000], any::<bool>(), any::<bool>()).prop_map(|(len, as_name, multibyte)| Case::AmfString { len, as_name, multibyte }),
        4 => (chunk_u32(), gen::edge_u32(), gen::edge_u32(), str_len(), any::<bool>(), prop_oneof![0u32..3000, gen::pick(&[65_536u32, 70_000])]).prop_map(|(chunk, window, bandwidth, version_len, bwdone, media_len)| Case::Server { chunk, window, bandwidth, version_len, bwdone, media_len }),
        4 => (chunk_u32(), gen::edge_u32(), gen::edge_u32(), str_len(), proptest::option::weighted(0.5, str_len()), prop_oneof![4 => 1u32..20, 1 => gen::pick(&[65_535u32, 65_536])], 1u32..20, prop_oneof![0u32..3000, gen::pick(&[65_536u32, 70_000])]).prop_map(|(chunk, window, buffer, version_len, tc_url_len, app_len, key_len, media_len)| Case::Client { chunk, window, buffer, version_len, tc_url_len, app_len, key_len, media_len }),
    ]
    .boxed()
}

fn fixed(_ctx: &Ctx) -> Vec<Case> {
    let mut v = Vec::new();
    for size in [0u32, 1, 0x7FFF_FFFF, 0x8000_0000, 0xFFFF_FFFF] {
        v.push(Case::SerChunk { size, len: 1000 });
        v.push(Case::DeChunk { size: size as u64, len: 1000 });
        v.push(Case::Server { chunk: size, window: 1_000_000, bandwidth: 1, version_len: 14, bwdone: true, media_len: 500 });
        v.push(Case::Client { chunk: size, window: 1_000_000, buffer: 1, version_len: 14, tc_url_len: None, app_len: 4, key_len: 4, media_len: 500 });
    }
    for len in [16_777_214u32, 16_777_215, 16_777_216] {
        v.push(Case::Payload { len, chunk: 65_536 });
        // the largest payload at the smallest chunk size: 16.7 million chunks (work must stay linear)
        v.push(Case::Payload { len, chunk: 1 });
    }
    for len in [65_535u32, 65_536] {
        for as_name in [false, true] {
            v.push(Case::AmfString { len, as_name, multibyte: false });
        }
        v.push(Case::Server { chunk: 4096, window: 1, bandwidth: 0, version_len: len, bwdone: false, media_len: 10 });
        v.push(Case::Client { chunk: 4096, window: 1, buffer: 0, version_len: len, tc_url_len: Some(len), app_len: 3, key_len: 3, media_len: 10 });
    }
    v
}

pub fn iso() -> IsoCheck<Case> {
    IsoCheck {
        name: "honoured-or-refused",
        strategy: Some(Arc::new(|_ctx: &Ctx| case())),
        quick: 2_000,
        thorough: 30_000,
        fixed: Arc::new(fixed),
        eval: Arc::new(eval),
        stack: 8 << 20,
        cap: 3usize << 30,
        watchdog: Duration::from_secs(120),
        max_workers: 8,
    }
}

pub fn spec() -> PropSpec {
    PropSpec {
        id: "C19",
        level: "exploration",
        rule: "configuration and argument values around every limit: chunk sizes {0, 1, 2, 127..129, 4096, 65535, 2^24-1, 2^24, 2^31-2, 2^31-1, 2^31, 2^31+1, 2^32-1, any; for the deserializer also 2^32, 2^32+1, 2^63, 2^64-1} through ChunkSerializer::set_max_chunk_size, ChunkDeserializer::set_max_chunk_size, ServerSessionConfig and ClientSessionConfig; windows / bandwidth / buffer lengths from the u32 edge pool; version strings, tcUrl and application names of {0, 1, 14, 65534, 65535, 65536, 65537, 100000} bytes; payloads of {16777214, 16777215, 16777216, 16777217, 20M, 16M..17.5M} bytes; AMF0 strings and property names around 65535 bytes (ASCII and 2-byte UTF-8). Each case runs in a worker process (heap cap 3 GiB, 120 s watchdog). Oracle: a value outside the protocol => some call returns Err and the object keeps working; an accepted value => the follow-up round-trip (C01 oracle) or client/server mini session (C02 oracle) succeeds. Non-trivial = a value within 1 of a limit, or a refused value followed by continued correct use; distinct = distinct case",
        assumptions: vec![
            "the client applies its configured chunk size when the connect result arrives, so that is where an illegal value must be refused; an over-long version string is refused when the command that carries it is built",
            "termination is observed by a 120 s watchdog (the slowest accepted case, a 16 MiB payload, takes well under 2 s) and by the allocation cap (a non-terminating slicing loop allocates without bound and hits the cap within seconds)",
        ],
        checks: vec![Box::new(iso())],
    }
}
