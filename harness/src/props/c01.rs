//! C01 — chunk codec round-trip.  Oracle: inverse (library serializer → library deserializer
//! honouring chunk-size changes, under a generated partition of the byte stream).

use crate::core::*;
use crate::drive::*;
use crate::gen::{self, Partition, SeqCfg};
use proptest::prelude::*;
use serde::{Deserialize, Serialize};

#[derive(Clone, Debug, Serialize, Deserialize)]
pub struct Case {
    pub seq: Seq,
    pub partition: Partition,
}

pub fn eval(case: &Case) -> Verdict {
    let ser = match run_serializer(&case.seq) {
        Ok(s) => s,
        Err(e) => return Verdict::Fail(e),
    };
    let stream: Vec<u8> = ser.packets.iter().flat_map(|p| p.0.iter().copied()).collect();
    let (got, err) = lib_decode(&stream, &case.partition);
    if let Some(e) = err {
        vfail!("deserializer error after {} of {} messages: {}", got.len(), ser.expected.len(), e);
    }
    if let Some(d) = first_difference(&got, &ser.expected) {
        vfail!("round-trip mismatch: {}", d);
    }
    let mut obs = Obs::new();
    let mut cut_in_header = false;
    let mut compressed = false;
    let mut multi = false;
    if let Ok((dec, map)) = ref_decode(false, &stream) {
        classify_stream(&dec, &mut obs);
        cut_in_header = classify_cuts(&map, &case.partition.ends(stream.len()), &mut obs);
        compressed = dec.iter().any(|d| d.first_fmt != 0);
        multi = dec.iter().any(|d| d.chunks > 1);
    }
    let chunk_change = case.seq.ops.iter().any(|o| matches!(o, Op::Chunk(_)));
    let mut prev_drop_same_type = false;
    let mut forced_multi = false;
    let mut last: std::collections::HashMap<u8, bool> = std::collections::HashMap::new();
    for o in &case.seq.ops {
        if let Op::Msg(m) = o {
            if last.get(&m.type_id).copied().unwrap_or(false) {
                prev_drop_same_type = true;
            }
            last.insert(m.type_id, m.drop);
            if m.force && m.len > 128 {
                forced_multi = true;
            }
        }
    }
    obs.class_if(prev_drop_same_type, "droppable-predecessor");
    obs.class_if(forced_multi, "force-uncompressed-large");
    obs.nontrivial = ser.expected.len() >= 2 && (compressed || multi || chunk_change || cut_in_header);
    Verdict::Pass(obs)
}

fn large_cases(ctx: &Ctx) -> Vec<Case> {
    let mut v = Vec::new();
    let mut sizes: Vec<(u32, u32)> = vec![(65_536, 128), (70_000, 1), (16_777_215, 4096), (16_777_215, 0x7FFF_FFFF), (16_777_214, 65_536), (65_535, 65_536), (65_537, 65_536)];
    if ctx.tier == Tier::Thorough {
        sizes.extend_from_slice(&[(16_777_215, 1), (16_777_214, 1), (16_777_215, 128), (16_777_214, 0x7FFF_FFFE), (16_777_215, 16_777_215), (16_777_215, 16_777_214)]);
    }
    for (i, (len, cs)) in sizes.into_iter().enumerate() {
        for (j, partition) in [Partition::Whole, Partition::Cuts(vec![3, 77, 30000, 65000, 65535])].into_iter().enumerate() {
            if j == 1 && len > 1_000_000 && cs < 4096 {
                continue;
            }
            let big = MsgSpec { type_id: 9, msid: 1, dts: 0xFF_FFFF + i as u32, len, fill: i as u32, force: false, drop: false };
            let small = MsgSpec { type_id: 9, msid: 1, dts: 5, len: 3, fill: 9, force: false, drop: false };
            v.push(Case {
                seq: Seq { ops: vec![Op::Msg(small.clone()), Op::Chunk(cs), Op::Msg(big.clone()), Op::Msg(small.clone()), Op::Msg(MsgSpec { force: true, ..big.clone() }), Op::Msg(small)] },
                partition,
            });
        }
    }
    v
}

pub fn spec() -> PropSpec {
    PropSpec {
        id: "C01",
        level: "exploration",
        rule: "message sequences (1..12 ops quick, 1..40 thorough) from the palette generator: type ids, stream ids, timestamp deltas (0, small, 0xFFFFFE/0xFFFFFF/0x1000000, 2^31, 2^32-k 'negative', any) and lengths (0, 1..10, around and multiples of the current chunk size, up to 6000; fixed cases at 65536 and 16777214/16777215 bytes) drawn from a small per-case palette so header compression occurs; chunk-size changes (1, 2, 3, 127..129, 4096, 65536, 2^31-1, any) interleaved; force_uncompressed / droppable flags; a generated partition of the byte stream (whole, byte-by-byte, fixed pieces, random cuts, optionally with an empty poll after every piece); sub-check 'roundtrip-kilobyte-chunks': chunk sizes 4095..65536 and messages up to 70000 bytes under cuts / KiB-sized pieces; sub-check 'many-message-streams': 28..700 message streams with one video and one audio message each on one serializer; sub-check 'committed-corpus-replay' re-runs the saved fuzz inputs. Non-trivial = >= 2 messages and (a compressed header or a multi-chunk message or a chunk-size change or a cut inside a chunk header); distinct = distinct (sequence, partition)",
        assumptions: vec![
            "type id 1 is produced only through set_max_chunk_size (a raw type-1 payload would be honoured as a chunk-size change the serializer never made)",
            "the receiver follows the documented protocol: get_next_message(&[]) until None, set_max_chunk_size after each decoded Set Chunk Size",
        ],
        checks: vec![
            PropCheck::new("roundtrip", |ctx| {
                let cfg = SeqCfg { max_ops: if ctx.tier == Tier::Thorough { 40 } else { 12 }, ..SeqCfg::DEFAULT };
                (gen::msg_seq(cfg), gen::partition()).prop_map(|(seq, partition)| Case { seq, partition }).boxed()
            }, 150_000, 3_000_000, eval),
            PropCheck::new("roundtrip-kilobyte-chunks", |_| (gen::msg_seq_large(6), gen::partition_large()).prop_map(|(seq, partition)| Case { seq, partition }).boxed(), 6_000, 200_000, eval),
            PropCheck::new("many-message-streams", |_| (gen::msg_seq_many_msids(), gen::partition()).prop_map(|(seq, partition)| Case { seq, partition }).boxed(), 600, 20_000, eval),
            EnumCheck::new("large", false, large_cases, eval),
            crate::targets::corpus_check(&["chunk_roundtrip"]),
        ],
    }
}
