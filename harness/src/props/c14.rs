//! C14 — AMF0 decoding uses bounded stack and memory on every input.
//! Each case runs in a worker process on a thread with a 2 MiB stack (Rust's default thread
//! stack), with the counting allocator's hard cap armed and a watchdog in the parent.

use crate::core::*;
use crate::gen::{self, AmfCfg};
use crate::isolate::IsoCheck;
use crate::refs::amf0 as ra;
use proptest::prelude::*;
use serde::{Deserialize, Serialize};
use std::io::Cursor;
use std::sync::Arc;
use std::time::Duration;

#[derive(Clone, Debug, Serialize, Deserialize)]
pub enum Shape {
    /// `0A cccccccc` repeated `depth` times
    NestArray { depth: u32, count: u32 },
    /// `03 00 01 61` repeated
    NestObject { depth: u32 },
    /// `08 cccccccc 00 01 61` repeated
    NestEcma { depth: u32, count: u32 },
    /// the three above mixed by a seed
    NestMixed { depth: u32, seed: u32, count: u32 },
    /// an array / ECMA-array header with a huge count followed by few values
    CountOnly { ecma: bool, count: u32, values: u32 },
    /// `02 llll` + a body shorter than announced; repeated
    ShortStrings { len: u16, body: u16, repeat: u32 },
    /// flood of small values: 0 = Null, 1 = Undefined, 2 = Boolean, 3 = Number, 4 = empty string, 5 = empty object, 6 = empty array
    Flood { kind: u8, n: u32 },
    /// object with many distinct property names
    WideObject { n: u32 },
    /// a valid encoding with mutated bytes
    Mutated { values: Vec<ra::V>, flips: Vec<(u16, u8)> },
    /// arbitrary bytes
    Raw(Vec<u8>),
    /// `head` (e.g. a container header) followed by `unit` repeated `n` times: long runs of one byte
    /// value or of one small structure (a stray end marker, an empty ECMA array with a huge count, …)
    Run { head: Vec<u8>, unit: Vec<u8>, n: u32 },
}

#[derive(Clone, Debug, Serialize, Deserialize)]
pub struct Case {
    pub shape: Shape,
    /// append the structure that would close the nests
    pub close: bool,
    /// total input length cap
    pub cap: u32,
}

pub fn build(c: &Case) -> Vec<u8> {
    let cap = c.cap as usize;
    let mut b: Vec<u8> = Vec::new();
    let mut closers: Vec<&'static [u8]> = Vec::new();
    let push = |b: &mut Vec<u8>, s: &[u8]| -> bool {
        if b.len() + s.len() > cap {
            false
        } else {
            b.extend_from_slice(s);
            true
        }
    };
    match &c.shape {
        Shape::NestArray { depth, count } => {
            let mut h = vec![0x0A];
            h.extend_from_slice(&count.to_be_bytes());
            for _ in 0..*depth {
                if !push(&mut b, &h) {
                    break;
                }
            }
        }
        Shape::NestObject { depth } => {
            for _ in 0..*depth {
                if !push(&mut b, &[0x03, 0, 1, b'a']) {
                    break;
                }
                closers.push(&[0, 0, 9]);
            }
        }
        Shape::NestEcma { depth, count } => {
            let mut h = vec![0x08];
            h.extend_from_slice(&count.to_be_bytes());
            h.extend_from_slice(&[0, 1, b'a']);
            for _ in 0..*depth {
                if !push(&mut b, &h) {
                    break;
                }
                closers.push(&[0, 0, 9]);
            }
        }
        Shape::NestMixed { depth, seed, count } => {
            let mut x = *seed | 1;
            for _ in 0..*depth {
                x ^= x << 13;
                x ^= x >> 17;
                x ^= x << 5;
                let ok = match x % 3 {
                    0 => {
                        let mut h = vec![0x0A];
                        h.extend_from_slice(&count.to_be_bytes());
                        push(&mut b, &h)
                    }
                    1 => {
                        closers.push(&[0, 0, 9]);
                        push(&mut b, &[0x03, 0, 1, b'k'])
                    }
                    _ => {
                        closers.push(&[0, 0, 9]);
                        let mut h = vec![0x08];
                        h.extend_from_slice(&count.to_be_bytes());
                        h.extend_from_slice(&[0, 2, b'k', b'2']);
                        push(&mut b, &h)
                    }
                };
                if !ok {
                    break;
                }
            }
        }
        Shape::CountOnly { ecma, count, values } => {
            b.push(if *ecma { 0x08 } else { 0x0A });
            b.extend_from_slice(&count.to_be_bytes());
            for i in 0..*values {
                if *ecma {
                    if !push(&mut b, &[0, 2, b'a' + (i % 26) as u8, b'a' + ((i / 26) % 26) as u8, 0x05]) {
                        break;
                    }
                } else if !push(&mut b, &[0x05]) {
                    break;
                }
            }
        }
        Shape::ShortStrings { len, body, repeat } => {
            for _ in 0..*repeat {
                let mut s = vec![0x02];
                s.extend_from_slice(&len.to_be_bytes());
                s.extend(std::iter::repeat(b'x').take((*body).min(*len) as usize));
                if !push(&mut b, &s) {
                    break;
                }
            }
        }
        Shape::Flood { kind, n } => {
            let unit: &[u8] = match kind % 7 {
                0 => &[0x05],
                1 => &[0x06],
                2 => &[0x01, 0x01],
                3 => &[0x00, 0x40, 0x09, 0x21, 0xFB, 0x54, 0x44, 0x2D, 0x18],
                4 => &[0x02, 0, 0],
                5 => &[0x03, 0, 0, 9],
                _ => &[0x0A, 0, 0, 0, 0],
            };
            let n = (*n as usize).min(cap / unit.len());
            b.reserve(n * unit.len());
            for _ in 0..n {
                b.extend_from_slice(unit);
            }
        }
        Shape::WideObject { n } => {
            b.push(0x03);
            for i in 0..*n {
                let name = format!("p{}", i);
                let mut e = (name.len() as u16).to_be_bytes().to_vec();
                e.extend_from_slice(name.as_bytes());
                e.push(0x05);
                if !push(&mut b, &e) {
                    break;
                }
            }
            closers.push(&[0, 0, 9]);
        }
        Shape::Mutated { values, flips } => {
            b = ra::enc(values).unwrap_or_default();
            b.truncate(cap);
            for (pos, x) in flips {
                if !b.is_empty() {
                    let i = ((*pos as usize) * b.len()) >> 16;
                    b[i] ^= *x | 1;
                }
            }
        }
        Shape::Raw(r) => {
            b = r.clone();
            b.truncate(cap);
        }
        Shape::Run { head, unit, n } => {
            b.extend_from_slice(head);
            b.truncate(cap);
            if !unit.is_empty() {
                let n = (*n as usize).min((cap - b.len()) / unit.len());
                b.reserve(n * unit.len());
                for _ in 0..n {
                    b.extend_from_slice(unit);
                }
            }
        }
    }
    if c.close {
        // innermost value, then the closers from the inside out
        let _ = push(&mut b, &[0x05]);
        for cl in closers.iter().rev() {
            if !push(&mut b, cl) {
                break;
            }
        }
    }
    b
}

pub fn eval(c: &Case) -> Verdict {
    let bytes = build(c);
    let len = bytes.len();
    let (outcome, peak) = crate::alloc::measure(|| {
        let r = rml_amf0::deserialize(&mut Cursor::new(&bytes[..]));
        let ok = r.is_ok();
        let n = r.as_ref().map(|v| v.len()).unwrap_or(0);
        drop(r); // dropping the value is part of the measured risk (recursive drop)
        (ok, n)
    });
    let bound = 192 * len + 128 * 1024;
    vensure!(peak <= bound, "decoding {} bytes allocated a peak of {} bytes (bound 192 x len + 128 KiB = {}): a declared length / count is trusted for allocation, or memory grows faster than the input", len, peak, bound);
    let mut obs = Obs::new();
    let (deep, liar) = match &c.shape {
        Shape::NestArray { depth, count } => (*depth >= 100, *count as usize > len),
        Shape::NestObject { depth } => (*depth >= 100, false),
        Shape::NestEcma { depth, count } => (*depth >= 100, *count as usize > len),
        Shape::NestMixed { depth, count, .. } => (*depth >= 100, *count as usize > len),
        Shape::CountOnly { count, .. } => (false, *count as usize > len),
        Shape::ShortStrings { len: l, body, .. } => (false, body < l),
        _ => (false, false),
    };
    obs.class(match &c.shape {
        Shape::NestArray { .. } => "nested-strict-arrays",
        Shape::NestObject { .. } => "nested-objects",
        Shape::NestEcma { .. } => "nested-ecma-arrays",
        Shape::NestMixed { .. } => "nested-mixed",
        Shape::CountOnly { .. } => "count-field-exceeds-input",
        Shape::ShortStrings { .. } => "string-length-exceeds-input",
        Shape::Flood { .. } => "flood-of-small-values",
        Shape::WideObject { .. } => "wide-object",
        Shape::Mutated { .. } => "mutated-valid-encoding",
        Shape::Raw(_) => "raw-bytes",
        Shape::Run { .. } => "run-of-one-unit",
    });
    obs.class(if outcome.0 { "decoded-ok" } else { "rejected" });
    obs.class_if(deep, "depth-100-or-more");
    obs.class_if(len >= 1 << 20, "input-1-MiB-or-more");
    obs.class_if(len >= 8 << 20, "input-8-MiB-or-more");
    obs.count("input-bytes", len as u64);
    obs.count("peak-heap-bytes", peak as u64);
    obs.nontrivial = deep || liar;
    Verdict::Pass(obs)
}

fn depths() -> BoxedStrategy<u32> {
    prop_oneof![gen::pick(&[10u32, 100, 127, 128, 129, 130, 1000, 10_000, 100_000, 3_355_443]), 1u32..300, 1u32..200_000].boxed()
}

fn counts() -> BoxedStrategy<u32> {
    prop_oneof![gen::pick(&[0u32, 1, 2, 0x8000_0000, 0xFFFF_FFFF, 0x7FFF_FFFF, 65_536]), any::<u32>()].boxed()
}

pub fn shape() -> BoxedStrategy<Shape> {
    prop_oneof![
        3 => (depths(), counts()).prop_map(|(depth, count)| Shape::NestArray { depth, count }),
        3 => depths().prop_map(|depth| Shape::NestObject { depth }),
        2 => (depths(), counts()).prop_map(|(depth, count)| Shape::NestEcma { depth, count }),
        3 => (depths(), any::<u32>(), counts()).prop_map(|(depth, seed, count)| Shape::NestMixed { depth, seed, count }),
        2 => (any::<bool>(), counts(), 0u32..2000).prop_map(|(ecma, count, values)| Shape::CountOnly { ecma, count, values }),
        2 => (gen::pick(&[0xFFFFu16, 0xFFFE, 0x8000, 100]), 0u16..200, 1u32..2000).prop_map(|(len, body, repeat)| Shape::ShortStrings { len, body, repeat }),
        2 => (0u8..7, prop_oneof![1u32..5000, 5000u32..2_000_000]).prop_map(|(kind, n)| Shape::Flood { kind, n }),
        1 => (1u32..50_000).prop_map(|n| Shape::WideObject { n }),
        3 => (gen::amf_values(AmfCfg::WIRE, 5), proptest::collection::vec((any::<u16>(), any::<u8>()), 0..6)).prop_map(|(values, flips)| Shape::Mutated { values, flips }),
        2 => proptest::collection::vec(any::<u8>(), 0..400).prop_map(Shape::Raw),
        3 => (run_head(), run_unit(), prop_oneof![1u32..5000, 5000u32..2_000_000]).prop_map(|(head, unit, n)| Shape::Run { head, unit, n }),
    ]
    .boxed()
}

fn run_head() -> BoxedStrategy<Vec<u8>> {
    prop_oneof![
        4 => Just(vec![]),
        1 => counts().prop_map(|c| { let mut h = vec![0x0A]; h.extend_from_slice(&c.to_be_bytes()); h }),
        1 => Just(vec![0x03]),
        1 => counts().prop_map(|c| { let mut h = vec![0x08]; h.extend_from_slice(&c.to_be_bytes()); h }),
        1 => Just(vec![0x03, 0, 1, b'a']),
    ]
    .boxed()
}

const RUN_UNITS: &[&[u8]] = &[
    // ECMA arrays / objects whose property names are decimal numbers, small and huge (a decoder that
    // turns numeric keys into array positions must not size anything by them)
    &[0x08, 0, 0, 0, 1, 0, 7, b'2', b'0', b'0', b'0', b'0', b'0', b'0', 0x05, 0, 0, 9],
    &[0x08, 0, 0, 0, 1, 0, 10, b'4', b'2', b'9', b'4', b'9', b'6', b'7', b'2', b'9', b'5', 0x05, 0, 0, 9],
    &[0x08, 0, 0, 0, 2, 0, 1, b'0', 0x05, 0, 20, b'1', b'8', b'4', b'4', b'6', b'7', b'4', b'4', b'0', b'7', b'3', b'7', b'0', b'9', b'5', b'5', b'1', b'6', b'1', b'5', 0x05, 0, 0, 9],
    &[0x03, 0, 9, b'9', b'9', b'9', b'9', b'9', b'9', b'9', b'9', b'9', 0x05, 0, 0, 9],
    &[0x08, 0, 0, 0, 1, 0, 2, b'-', b'1', 0x05, 0, 0, 9],
    &[0x09],
    &[0, 0, 9],
    &[0, 0],
    &[0x08, 0xFF, 0xFF, 0xFF, 0xFF, 0, 0, 9],
    &[0x08, 0, 0, 4, 0, 0, 0, 9],
    &[0x0A, 0xFF, 0xFF, 0xFF, 0xFF],
    &[0x0A, 0, 0, 4, 0],
    &[0x03, 0, 0, 9],
    &[0x03, 0, 0],
    &[0, 1, b'a', 0x05],
    &[0, 1, b'a', 0x03],
    &[0, 1, b'a', 0x08, 0xFF, 0xFF, 0xFF, 0xFF],
    &[0x02, 0xFF, 0xFF],
    &[0x0C, 0xFF, 0xFF, 0xFF, 0xFF],
    &[0x0B, 0, 0, 0, 0, 0, 0, 0, 0, 0, 0],
];

fn run_unit() -> BoxedStrategy<Vec<u8>> {
    prop_oneof![
        3 => any::<u8>().prop_map(|b| vec![b]),
        3 => gen::pick(RUN_UNITS).prop_map(|u| u.to_vec()),
        2 => proptest::collection::vec(any::<u8>(), 1..9),
    ]
    .boxed()
}

fn fixed(ctx: &Ctx) -> Vec<Case> {
    let big: u32 = if ctx.tier == Tier::Thorough { 16_777_215 } else { 1 << 20 };
    let mut v = Vec::new();
    for close in [false, true] {
        for depth in [10u32, 100, 128, 129, 1000, 10_000, 100_000, big / 5] {
            v.push(Case { shape: Shape::NestArray { depth, count: 1 }, close, cap: big });
            v.push(Case { shape: Shape::NestArray { depth, count: 0xFFFF_FFFF }, close, cap: big });
            v.push(Case { shape: Shape::NestObject { depth }, close, cap: big });
            v.push(Case { shape: Shape::NestEcma { depth, count: 0xFFFF_FFFF }, close, cap: big });
            v.push(Case { shape: Shape::NestMixed { depth, seed: depth, count: 2 }, close, cap: big });
        }
    }
    for kind in 0..7u8 {
        v.push(Case { shape: Shape::Flood { kind, n: u32::MAX }, close: false, cap: big });
    }
    // a run of every single byte value (top level), and of every listed unit at top level and inside an array
    let run_cap: u32 = if ctx.tier == Tier::Thorough { big } else { 256 << 10 };
    for b in 0..=255u8 {
        v.push(Case { shape: Shape::Run { head: vec![], unit: vec![b], n: u32::MAX }, close: false, cap: run_cap });
    }
    for u in RUN_UNITS {
        v.push(Case { shape: Shape::Run { head: vec![], unit: u.to_vec(), n: u32::MAX }, close: false, cap: run_cap });
        v.push(Case { shape: Shape::Run { head: vec![0x0A, 0xFF, 0xFF, 0xFF, 0xFF], unit: u.to_vec(), n: u32::MAX }, close: false, cap: run_cap });
    }
    v.push(Case { shape: Shape::WideObject { n: u32::MAX }, close: true, cap: big });
    v.push(Case { shape: Shape::CountOnly { ecma: false, count: 0xFFFF_FFFF, values: 0 }, close: false, cap: big });
    v.push(Case { shape: Shape::CountOnly { ecma: true, count: 0xFFFF_FFFF, values: 0 }, close: false, cap: big });
    v.push(Case { shape: Shape::ShortStrings { len: 0xFFFF, body: 0, repeat: 1 }, close: false, cap: big });
    v.push(Case { shape: Shape::ShortStrings { len: 0xFFFF, body: 0xFFFE, repeat: 200 }, close: false, cap: big });
    v
}

pub fn iso() -> IsoCheck<Case> {
    IsoCheck {
        name: "bounded-stack-and-heap",
        strategy: Some(Arc::new(|ctx: &Ctx| {
            let cap = if ctx.tier == Tier::Thorough { prop_oneof![4 => Just(1u32 << 20), 1 => Just(16_777_215u32)].boxed() } else { Just(1u32 << 20).boxed() };
            (shape(), any::<bool>(), cap).prop_map(|(shape, close, cap)| Case { shape, close, cap }).boxed()
        })),
        quick: 3_000,
        thorough: 40_000,
        fixed: Arc::new(fixed),
        eval: Arc::new(eval),
        stack: 2 << 20,
        cap: 4usize << 30,
        watchdog: Duration::from_secs(120),
        max_workers: 8,
    }
}

pub fn spec() -> PropSpec {
    PropSpec {
        id: "C14",
        level: "exploration",
        rule: "structure-aware adversarial byte strings (incl. runs of one unit - every single byte value, stray end markers, empty containers with huge counts, ECMA arrays with numeric keys, random units - at top level and inside containers): nests of strict-array / object / ECMA-array headers (and mixes) to depth 10 .. 100000 .. len/5 with count fields in {0, 1, 2, 65536, 2^31-1, 2^31, 2^32-1, any}, optionally followed by the structure that closes them; array / ECMA headers whose count exceeds the input; strings announcing 65535 bytes with short bodies; floods of Null / Undefined / Boolean / Number / empty string / empty object / empty array up to the size cap (1 MiB quick, 16777215 thorough); objects with up to 50000 distinct names; mutated valid encodings; raw bytes. Each case is decoded (and the result dropped) in a worker process on a 2 MiB stack; oracle: the worker survives, returns Ok or Err, peak live heap <= 192 x len + 128 KiB. Non-trivial = nesting depth >= 100 or a count / length field that exceeds the remaining input; distinct = distinct case",
        assumptions: vec![
            "2 MiB is taken as the 'ordinary thread stack' (Rust's default for spawned threads)",
            "the memory bound 192 x len + 128 KiB: a decoded value costs at most 56 bytes per input byte (one Amf0Value per 1-byte Null), vector growth doubles, and one 64 KiB string buffer may be live; an allocation that trusts a count field exceeds it by orders of magnitude",
            "termination is observed by a 120 s watchdog (normal cost of a 16 MiB input: well under 2 s)",
        ],
        checks: vec![Box::new(iso())],
    }
}
