//! C10 — the client session follows the connect / createStream / publish|play workflow in every
//! history.  Oracle: ModelClient (written from the statement, three-valued) + twin runs for
//! "refused without emitting bytes or changing state" and "not applied".

use crate::core::*;
use crate::gen::{self, fill_bytes};
use crate::props::c02::{meta, meta_eq, Meta};
use crate::props::c09::{key_str, KEYS};
use crate::refs::amf0::{self as ra, V};
use crate::refs::msg::RM;
use crate::sess::*;
use bytes::Bytes;
use proptest::prelude::*;
use rml_rtmp::sessions::*;
use rml_rtmp::time::RtmpTimestamp;
use serde::{Deserialize, Serialize};
use std::collections::{BTreeMap, BTreeSet};

/// The stream id a createStream result returns: small for most indices, and for the top of the
/// range ids that do not fit 8, 16, 24 or 31 bits (a server may number its streams as it likes).
pub fn returned_stream_id(s: u8) -> u32 {
    match s {
        250 => 255,
        251 => 256,
        252 => 65_536,
        253 => 0x0100_0000,
        254 => 0x8000_0000,
        255 => 0xFFFF_FFFF,
        x => x as u32 + 1,
    }
}

#[derive(Clone, Debug, Serialize, Deserialize, PartialEq)]
pub enum TidRef {
    Outstanding(u16),
    Answered(u16),
    /// 0 => 0.0, 1 => -1.0, 2 => NaN, 3 => 2^33, 4 => a number never issued (1000+)
    Special(u8),
    /// the k-th id ABOVE the largest transaction id the session has issued so far, i.e. the id
    /// the next request would get (an implementation that registers a transaction for a request
    /// it refuses would apply an answer to it)
    Next(u8),
    /// an outstanding id (by index) plus / minus a multiple of 2^32: a different number, hence an
    /// unknown transaction, which a truncating conversion to a 32-bit key would alias to it.
    /// k: 0 => +2^32, 1 => +2^33, 2 => -2^32 (negative), 3 => +0.5, 4 => +0.999 (fractional: not the
    /// number of any transaction, which a truncating conversion would round down to it)
    Aliased(u16, u8),
}

#[derive(Clone, Debug, Serialize, Deserialize, PartialEq)]
pub enum COp {
    RequestConnection { app: u8 },
    RequestPlayback { key: u8 },
    RequestPublishing { key: u8, kind: u8 },
    StopPlayback,
    StopPublishing,
    PublishMetadata { meta: Meta },
    PublishAudio { len: u16, ts: u32, drop: bool },
    PublishVideo { len: u16, ts: u32, drop: bool },
    SendPing,
    /// `_result`; stream: Some(n) adds Number(n) as first further argument
    Result { tid: TidRef, stream: Option<u8> },
    /// `_error`
    Error { tid: TidRef },
    /// onStatus: 0 Play.Start, 1 Publish.Start, 2 another code, 3 object without code, 4 non-object argument, 5 no argument
    OnStatus { kind: u8 },
    /// media from the server: on the active stream (or stream 5 when none) / on another stream
    Audio { active: bool, ts: u32, len: u16 },
    Video { active: bool, ts: u32, len: u16 },
    OnMetaData { active: bool, meta: Meta },
    Ping { ts: u32 },
    Ack { v: u32 },
    WindowAck { v: u32 },
    PeerChunkSize(u32),
    UnknownCommand { k: u8 },
}

#[derive(Clone, Debug, Serialize, Deserialize)]
pub struct Case {
    /// (operation, cut seed, wildness: below 64 the operation is sent even when it is expected to
    /// end the history with a handle_input error, otherwise such an operation is skipped)
    pub ops: Vec<(COp, u16, u8)>,
    pub chunk_size: u32,
}

#[derive(Clone, Debug)]
pub enum Concrete {
    Peer { rm: RM, msid: u32, ts: u32, cut: u16, chunk: Option<u32> },
    RequestConnection(String),
    RequestPlayback(String),
    RequestPublishing(String, u8),
    StopPlayback,
    StopPublishing,
    PublishMetadata(Meta),
    PublishAudio { len: u16, ts: u32, drop: bool },
    PublishVideo { len: u16, ts: u32, drop: bool },
    SendPing,
}

#[derive(Debug, Default)]
pub struct OpObs {
    pub err: Option<String>,
    pub events: Vec<ClientSessionEvent>,
    pub out: Vec<OutMsg>,
    pub raw_out_bytes: usize,
}

pub struct Exec {
    pub sess: ClientSession,
    pub outdec: OutDec,
    pub peer: PeerEnc,
    pub record: Vec<PacketRec>,
    pub tag: Tag,
}

impl Exec {
    pub fn new(chunk_size: u32) -> Result<Exec, String> {
        let mut cfg = ClientSessionConfig::new();
        cfg.chunk_size = chunk_size.clamp(1, 0x7FFF_FFFF);
        let (sess, init) = ClientSession::new(cfg).map_err(|e| format!("ClientSession::new failed: {:?}", e))?;
        let mut e = Exec { sess, outdec: OutDec::new(), peer: PeerEnc::new(), record: Vec::new(), tag: Tag { call: usize::MAX, ..Tag::default() } };
        let mut o = OpObs::default();
        e.absorb(init, &mut o)?;
        Ok(e)
    }

    fn absorb(&mut self, results: Vec<ClientSessionResult>, o: &mut OpObs) -> Result<(), String> {
        let s = split_client(results);
        for (b, d) in s.packets {
            o.raw_out_bytes += b.len();
            self.record.push(PacketRec { bytes: b.clone(), droppable: d, asked: self.tag.asked, call: self.tag.call, expect_msid: self.tag.expect_msid, age: self.tag.age });
            o.out.extend(self.outdec.packet(&b, d)?);
        }
        o.events.extend(s.events);
        Ok(())
    }

    fn one(&mut self, r: Result<ClientSessionResult, ClientSessionError>, o: &mut OpObs) -> Result<(), String> {
        match r {
            Ok(x) => self.absorb(vec![x], o),
            Err(e) => {
                o.err = Some(format!("{:?}", e));
                Ok(())
            }
        }
    }

    fn many(&mut self, r: Result<Vec<ClientSessionResult>, ClientSessionError>, o: &mut OpObs) -> Result<(), String> {
        match r {
            Ok(x) => self.absorb(x, o),
            Err(e) => {
                o.err = Some(format!("{:?}", e));
                Ok(())
            }
        }
    }

    pub fn run(&mut self, c: &Concrete) -> Result<OpObs, String> {
        let mut o = OpObs::default();
        match c {
            Concrete::Peer { rm, msid, ts, cut, chunk } => {
                let bytes = match chunk {
                    Some(n) => self.peer.set_chunk_size(*n, *ts),
                    None => self.peer.send(rm, *msid, *ts),
                };
                let at = ((*cut as usize) * (bytes.len() + 1)) >> 16;
                let pieces: Vec<&[u8]> = if at == 0 || at >= bytes.len() { vec![&bytes[..]] } else { vec![&bytes[..at], &bytes[at..]] };
                for p in pieces {
                    let r = self.sess.handle_input(p);
                    self.many(r, &mut o)?;
                }
            }
            Concrete::RequestConnection(app) => {
                let r = self.sess.request_connection(app.clone());
                self.one(r, &mut o)?
            }
            Concrete::RequestPlayback(key) => {
                let r = self.sess.request_playback(key.clone());
                self.one(r, &mut o)?
            }
            Concrete::RequestPublishing(key, kind) => {
                let t = match kind % 3 {
                    0 => PublishRequestType::Live,
                    1 => PublishRequestType::Record,
                    _ => PublishRequestType::Append,
                };
                let r = self.sess.request_publishing(key.clone(), t);
                self.one(r, &mut o)?
            }
            Concrete::StopPlayback => {
                let r = self.sess.stop_playback();
                self.many(r, &mut o)?
            }
            Concrete::StopPublishing => {
                let r = self.sess.stop_publishing();
                self.many(r, &mut o)?
            }
            Concrete::PublishMetadata(m) => {
                let r = self.sess.publish_metadata(&m.to_lib());
                self.one(r, &mut o)?
            }
            Concrete::PublishAudio { len, ts, drop } => {
                let r = self.sess.publish_audio_data(Bytes::from(fill_bytes(*ts, *len as usize)), RtmpTimestamp::new(*ts), *drop);
                self.one(r, &mut o)?
            }
            Concrete::PublishVideo { len, ts, drop } => {
                let r = self.sess.publish_video_data(Bytes::from(fill_bytes(*ts, *len as usize)), RtmpTimestamp::new(*ts), *drop);
                self.one(r, &mut o)?
            }
            Concrete::SendPing => match self.sess.send_ping_request() {
                Ok((p, _)) => {
                    o.raw_out_bytes += p.bytes.len();
                    self.record.push(PacketRec { bytes: p.bytes.clone(), droppable: p.can_be_dropped, asked: None, call: self.tag.call, expect_msid: None, age: self.tag.age });
                    o.out.extend(self.outdec.packet(&p.bytes, p.can_be_dropped)?)
                }
                Err(e) => o.err = Some(format!("{:?}", e)),
            },
        }
        Ok(o)
    }
}

pub fn norm_obs(o: &OpObs) -> String {
    let mut s = String::new();
    s.push_str(&format!("err={} ", o.err.is_some()));
    for e in &o.events {
        let t = fmt_client_event(e);
        s.push_str(&format!("E:{};", t));
    }
    for m in &o.out {
        let body = match &m.rm {
            Ok(RM::Command(n, t, ob, a)) => format!("cmd {} {} {:?} {:?}", n.build(), f64::from_bits(*t), ra::from_lib(&ra::to_lib(ob)), a.iter().map(|x| ra::from_lib(&ra::to_lib(x))).collect::<Vec<_>>()),
            Ok(RM::Data(vs)) => format!("data {:?}", vs.iter().map(|x| ra::from_lib(&ra::to_lib(x))).collect::<Vec<_>>()),
            Ok(RM::Ack(_)) => continue,
            Ok(RM::UserControl(6, _)) => "ping-request".to_string(),
            Ok(other) => format!("{:?}", other),
            Err(e) => format!("unparsable {}", e),
        };
        let ts = if matches!(m.dec.msg.type_id, 8 | 9) { m.dec.msg.ts.to_string() } else { "_".to_string() };
        s.push_str(&format!("O:t{} s{} ts{} d{} {};", m.dec.msg.type_id, m.dec.msg.msid, ts, m.droppable, body));
    }
    s
}

// ------------------------------------------------------------------------------------------------
// ModelClient

#[derive(Clone, Copy, Debug, PartialEq)]
enum St {
    Disconnected,
    Connected,
    PlayRequested,
    Playing,
    PublishRequested,
    Publishing,
}

#[derive(Clone, Debug)]
enum Tx {
    Connect,
    CreatePlay(String),
    CreatePublish(String, u8),
}

struct Model {
    st: St,
    outstanding: BTreeMap<u32, Tx>,
    answered: Vec<u32>,
    seen_tids: BTreeSet<u32>,
    active: Option<u32>,
    /// the stream that was active before the last stop (messages for it may still be in flight)
    last_active: Option<u32>,
    /// the statement stopped determining the state (see DESIGN.md C10 don't-cares): only
    /// state-independent clauses are judged from here on
    unspecified: bool,
    accepted_steps: u32,
}

fn commands<'a>(o: &'a OpObs, name: &str) -> Vec<(&'a OutMsg, f64, &'a V, &'a Vec<V>)> {
    o.out
        .iter()
        .filter_map(|m| match &m.rm {
            Ok(RM::Command(n, t, ob, a)) if n.build() == name => Some((m, f64::from_bits(*t), ob, a)),
            _ => None,
        })
        .collect()
}

fn non_ack_out(o: &OpObs) -> usize {
    o.out.iter().filter(|m| !matches!(m.rm, Ok(RM::Ack(_)))).count()
}

fn media_events(o: &OpObs) -> Vec<(bool, Vec<u8>, u32)> {
    o.events
        .iter()
        .filter_map(|e| match e {
            ClientSessionEvent::AudioDataReceived { data, timestamp } => Some((true, data.to_vec(), timestamp.value)),
            ClientSessionEvent::VideoDataReceived { data, timestamp } => Some((false, data.to_vec(), timestamp.value)),
            _ => None,
        })
        .collect()
}

fn count_ev(o: &OpObs, f: impl Fn(&ClientSessionEvent) -> bool) -> usize {
    o.events.iter().filter(|e| f(e)).count()
}

fn tid_value(model: &Model, r: &TidRef) -> (f64, &'static str) {
    match r {
        TidRef::Outstanding(i) if !model.outstanding.is_empty() => {
            let ids: Vec<&u32> = model.outstanding.keys().collect();
            (*ids[((*i as usize) * ids.len()) >> 16] as f64, "outstanding")
        }
        TidRef::Answered(i) if !model.answered.is_empty() => (model.answered[((*i as usize) * model.answered.len()) >> 16] as f64, "answered"),
        TidRef::Aliased(i, k) if !model.outstanding.is_empty() => {
            let ids: Vec<&u32> = model.outstanding.keys().collect();
            let base = *ids[((*i as usize) * ids.len()) >> 16] as f64;
            (base + [4_294_967_296.0, 8_589_934_592.0, -4_294_967_296.0, 0.5, 0.999][*k as usize % 5], "unknown")
        }
        TidRef::Next(k) => ((model.seen_tids.iter().next_back().copied().unwrap_or(0) + 1 + (*k as u32 % 3)) as f64, "unknown"),
        TidRef::Special(k) => match k % 5 {
            0 => (0.0, "unknown"),
            1 => (-1.0, "unknown"),
            2 => (f64::NAN, "unknown"),
            3 => (8589934592.0, "unknown"),
            _ => (1000.0 + *k as f64, "unknown"),
        },
        _ => (777.0, "unknown"),
    }
}

pub fn eval(case: &Case) -> Verdict {
    eval_with(case, &crate::props::c09::own_clock(case.ops.len()), &mut Vec::new())
}

/// Runs and judges a history; `clock` ages the session, `sink` receives every packet returned.
pub fn eval_with(case: &Case, clock: &Clock, sink: &mut Vec<PacketRec>) -> Verdict {
    let mut ex = match Exec::new(case.chunk_size) {
        Ok(e) => e,
        Err(e) => return Verdict::Fail(e),
    };
    let mut age = clock.age0;
    if age > 0 {
        ex.sess.verif_shift_clock(age);
    }
    let v = eval_inner(case, clock, &mut ex, &mut age);
    sink.append(&mut ex.record);
    v
}

fn eval_inner(case: &Case, clock: &Clock, ex: &mut Exec, age: &mut u64) -> Verdict {
    let mut model = Model { st: St::Disconnected, outstanding: BTreeMap::new(), answered: Vec::new(), seen_tids: BTreeSet::new(), active: None, last_active: None, unspecified: false, accepted_steps: 0 };
    let mut log: Vec<Concrete> = Vec::new();
    let mut ended_by_error = false;
    let mut traces: Vec<String> = Vec::new();
    let mut inert: Vec<usize> = Vec::new(); // ops that must not have changed anything
    let mut obs = Obs::new();
    let mut judged = 0u64;
    let mut refused_by_state = false;
    let mut unknown_answer = false;
    let mut peer_ts = 0u32;
    let mut skipped = 0u64;
    // Once the peer has announced an acknowledgement window, a failing handle_input call may already
    // have given an Acknowledgement to the serializer (the API then loses it), so a later compressed
    // header could refer to a chunk the peer never saw: from then on an Err ends the history.  Before
    // that nothing can have been serialized ahead of the failing message (one message per feed), and
    // the history goes on after the error, which is how "the failed answer changed no state" is seen.
    let mut window_set = false;
    let mut continued_after_error = false;

    for (idx, (op, cut, wild)) in case.ops.iter().enumerate() {
        // generation shaping only (never used for judging): operations that end the history with a
        // handle_input error are mostly skipped so that histories stay deep
        if *wild >= 64 && !model.unspecified && window_set {
            let ends_history = match op {
                COp::Audio { .. } | COp::Video { .. } => !matches!(model.st, St::PlayRequested | St::Playing),
                COp::OnStatus { kind } => match kind % 6 {
                    0 => model.st != St::PlayRequested,
                    1 => model.st != St::PublishRequested,
                    2 => false,
                    _ => true,
                },
                COp::Error { tid } => {
                    let (t, k) = tid_value(&model, tid);
                    k == "outstanding" && !matches!(model.outstanding.get(&(t as u32)), Some(Tx::Connect))
                }
                COp::Result { tid, stream } => {
                    let (t, k) = tid_value(&model, tid);
                    k == "outstanding" && !matches!(model.outstanding.get(&(t as u32)), Some(Tx::Connect)) && stream.is_none()
                }
                _ => false,
            };
            if ends_history {
                log.push(Concrete::SendPing);
                traces.push(String::new());
                inert.push(idx);
                skipped += 1;
                continue;
            }
        }
        peer_ts = peer_ts.wrapping_add(11);
        let at = format!("op {} {:?} (model state {:?}{})", idx, op, model.st, if model.unspecified { ", unspecified" } else { "" });
        // a stream other than the active one: three choices by position, among them message stream 0
        // (the control stream; "no active stream" must not behave like "active on stream 0") and 1
        let other_stream = |m: &Model| {
            let cands = [m.active.map(|a| a.wrapping_add(3)).unwrap_or(9), 0, 1];
            let c = cands[idx % 3];
            if Some(c) == m.active { cands[0] } else { c }
        };
        // with no active stream, 'the active stream' means the one that was active before the stop
        let active_or = |m: &Model| m.active.or(m.last_active).unwrap_or([5, 0, 1][idx % 3]);
        let concrete = match op {
            COp::RequestConnection { app } => Concrete::RequestConnection(["live", "app/inst", "\u{fc}n\u{ef}/\u{30e9}\u{30a4}\u{30d6}"][*app as usize % 3].to_string()),
            COp::RequestPlayback { key } => Concrete::RequestPlayback(key_str(*key % 3)),
            COp::RequestPublishing { key, kind } => Concrete::RequestPublishing(key_str(*key % 3), *kind),
            COp::StopPlayback => Concrete::StopPlayback,
            COp::StopPublishing => Concrete::StopPublishing,
            COp::PublishMetadata { meta } => Concrete::PublishMetadata(meta.clone()),
            COp::PublishAudio { len, ts, drop } => Concrete::PublishAudio { len: *len, ts: *ts, drop: *drop },
            COp::PublishVideo { len, ts, drop } => Concrete::PublishVideo { len: *len, ts: *ts, drop: *drop },
            COp::SendPing => Concrete::SendPing,
            COp::Result { tid, stream } => {
                let (t, _) = tid_value(&model, tid);
                let mut args = vec![];
                let mut object = V::Null;
                if let Some(Tx::Connect) = model.outstanding.get(&(t as u32)).filter(|_| t >= 1.0) {
                    object = obj(vec![("fmsVer", st("FMS/3,0,1,123")), ("capabilities", num(31.0))]);
                    args.push(obj(vec![("level", st("status")), ("code", st("NetConnection.Connect.Success")), ("description", st("ok")), ("objectEncoding", num(0.0))]));
                }
                if let Some(s) = stream {
                    args.insert(0, num(returned_stream_id(*s) as f64));
                }
                Concrete::Peer { rm: command("_result", t, object, args), msid: 0, ts: peer_ts, cut: *cut, chunk: None }
            }
            COp::Error { tid } => {
                let (t, _) = tid_value(&model, tid);
                Concrete::Peer { rm: command("_error", t, V::Null, vec![obj(vec![("level", st("error")), ("code", st("NetConnection.Connect.Rejected")), ("description", st("denied"))])]), msid: 0, ts: peer_ts, cut: *cut, chunk: None }
            }
            COp::OnStatus { kind } => {
                let args = match kind % 6 {
                    0 => vec![obj(vec![("level", st("status")), ("code", st("NetStream.Play.Start")), ("description", st("d"))])],
                    1 => vec![obj(vec![("level", st("status")), ("code", st("NetStream.Publish.Start")), ("description", st("d"))])],
                    2 => vec![obj(vec![("level", st("status")), ("code", st("NetStream.Play.Reset"))])],
                    3 => vec![obj(vec![("level", st("status"))])],
                    4 => vec![st("NetStream.Play.Start")],
                    _ => vec![],
                };
                // servers number their own calls independently: now and then the command carries a
                // number that happens to equal one of the client's pending transaction ids (it is not
                // an answer and must leave that transaction alone)
                let own_tid = if (kind / 6) % 2 == 1 { model.outstanding.keys().next().map(|t| *t as f64).unwrap_or(0.0) } else { 0.0 };
                Concrete::Peer { rm: command("onStatus", own_tid, V::Null, args), msid: active_or(&model), ts: peer_ts, cut: *cut, chunk: None }
            }
            COp::Audio { active, ts, len } => Concrete::Peer { rm: RM::Audio(fill_bytes(*ts, *len as usize)), msid: if *active { active_or(&model) } else { other_stream(&model) }, ts: *ts, cut: *cut, chunk: None },
            COp::Video { active, ts, len } => Concrete::Peer { rm: RM::Video(fill_bytes(*ts, *len as usize)), msid: if *active { active_or(&model) } else { other_stream(&model) }, ts: *ts, cut: *cut, chunk: None },
            COp::OnMetaData { active, meta } => {
                let lib = meta.to_lib();
                let mut pairs: Vec<(&str, V)> = Vec::new();
                if let Some(x) = lib.video_width { pairs.push(("width", num(x as f64))); }
                if let Some(x) = lib.video_height { pairs.push(("height", num(x as f64))); }
                if let Some(x) = lib.video_codec_id { pairs.push(("videocodecid", num(x as f64))); }
                if let Some(x) = lib.video_frame_rate { pairs.push(("framerate", num(x as f64))); }
                if let Some(x) = lib.video_bitrate_kbps { pairs.push(("videodatarate", num(x as f64))); }
                if let Some(x) = lib.audio_codec_id { pairs.push(("audiocodecid", num(x as f64))); }
                if let Some(x) = lib.audio_bitrate_kbps { pairs.push(("audiodatarate", num(x as f64))); }
                if let Some(x) = lib.audio_sample_rate { pairs.push(("audiosamplerate", num(x as f64))); }
                if let Some(x) = lib.audio_channels { pairs.push(("audiochannels", num(x as f64))); }
                if let Some(x) = lib.audio_is_stereo { pairs.push(("stereo", V::Bool(x as u8))); }
                if let Some(x) = &lib.encoder { pairs.push(("encoder", st(x))); }
                Concrete::Peer { rm: RM::Data(vec![st("onMetaData"), obj(pairs)]), msid: if *active { active_or(&model) } else { other_stream(&model) }, ts: peer_ts, cut: *cut, chunk: None }
            }
            COp::Ping { ts } => Concrete::Peer { rm: RM::UserControl(6, vec![*ts]), msid: 0, ts: peer_ts, cut: *cut, chunk: None },
            COp::Ack { v } => Concrete::Peer { rm: RM::Ack(*v), msid: 0, ts: peer_ts, cut: *cut, chunk: None },
            COp::WindowAck { v } => Concrete::Peer { rm: RM::WindowAck((*v).max(1)), msid: 0, ts: peer_ts, cut: *cut, chunk: None },
            // one time in four the server announces the very size the client is configured with
            COp::PeerChunkSize(n) => Concrete::Peer { rm: RM::SetChunkSize(0), msid: 0, ts: peer_ts, cut: *cut, chunk: Some((if *n % 4 == 0 { case.chunk_size } else { *n }).clamp(1, 0x7FFF_FFFF)) },
            COp::UnknownCommand { k } => {
                let own_tid = if (k / 3) % 2 == 1 { model.outstanding.keys().next_back().map(|t| *t as f64).unwrap_or(0.0) } else { 0.0 };
                Concrete::Peer { rm: command(["onBWDone", "onFCPublish", "close"][*k as usize % 3], own_tid, V::Null, vec![num(8192.0)]), msid: 0, ts: peer_ts, cut: *cut, chunk: None }
            }
        };
        if matches!(op, COp::WindowAck { .. }) {
            window_set = true;
        }
        let shift = clock.shift_before(idx, case.ops.len());
        if shift > 0 {
            ex.sess.verif_shift_clock(shift);
            *age += shift;
        }
        ex.tag = Tag {
            call: idx,
            asked: match &concrete {
                Concrete::PublishAudio { drop, .. } | Concrete::PublishVideo { drop, .. } => Some(*drop),
                _ => None,
            },
            expect_msid: match &concrete {
                // only when the model still knows which stream is active
                Concrete::PublishAudio { .. } | Concrete::PublishVideo { .. } | Concrete::PublishMetadata(_) if !model.unspecified => model.active,
                _ => None,
            },
            age: *age,
        };
        let o = match ex.run(&concrete) {
            Ok(o) => o,
            Err(e) => vfail!("{}: what the session emitted cannot be decoded by a conformant peer: {}", at, e),
        };
        // ---------------- judge, then follow ----------------
        let n_out = non_ack_out(&o);
        let accepted_ev = count_ev(&o, |e| matches!(e, ClientSessionEvent::ConnectionRequestAccepted | ClientSessionEvent::PlaybackRequestAccepted | ClientSessionEvent::PublishRequestAccepted));
        let media = media_events(&o);
        let state_known = !model.unspecified;
        // a fresh transaction id on every emitted request
        for name in ["connect", "createStream"] {
            for (_, t, _, _) in commands(&o, name) {
                vensure!(t >= 1.0 && t.fract() == 0.0, "{}: {} emitted with transaction id {}", at, name, t);
                vensure!(model.seen_tids.insert(t as u32), "{}: {} reuses transaction id {}", at, name, t);
            }
        }
        match op {
            COp::RequestConnection { app } => {
                let want_app = ["live", "app/inst", "\u{fc}n\u{ef}/\u{30e9}\u{30a4}\u{30d6}"][*app as usize % 3];
                let cmds = commands(&o, "connect");
                if state_known && model.st != St::Disconnected {
                    refused_by_state = true;
                    vensure!(o.raw_out_bytes == 0 && cmds.is_empty(), "{}: request_connection while not disconnected emitted bytes", at);
                    vensure!(o.err.is_some() || (o.events.is_empty() && o.out.is_empty()), "{}: request_connection while not disconnected was not refused", at);
                    inert.push(idx);
                    judged += 1;
                } else if state_known {
                    vensure!(o.err.is_none() && cmds.len() == 1 && n_out == 1, "{}: request_connection from the disconnected state must emit exactly one connect command (err {:?}, {} connect, {} messages)", at, o.err, cmds.len(), n_out);
                    let (m, t, ob, _) = &cmds[0];
                    vensure!(m.dec.msg.msid == 0, "{}: connect sent on message stream {}", at, m.dec.msg.msid);
                    vensure!(prop(ob, "app").and_then(as_str).as_deref() == Some(want_app), "{}: connect carries app {:?}", at, prop(ob, "app"));
                    model.outstanding.insert(*t as u32, Tx::Connect);
                    judged += 1;
                } else {
                    for (_, t, _, _) in cmds {
                        model.outstanding.insert(t as u32, Tx::Connect);
                    }
                }
            }
            COp::RequestPlayback { key } | COp::RequestPublishing { key, .. } => {
                let k = key_str(*key % 3);
                let _ = KEYS;
                let tx = match op {
                    COp::RequestPublishing { kind, .. } => Tx::CreatePublish(k, *kind % 3),
                    _ => Tx::CreatePlay(k),
                };
                let cmds = commands(&o, "createStream");
                let pending_create = model.outstanding.values().any(|t| !matches!(t, Tx::Connect));
                if state_known && model.st != St::Connected {
                    refused_by_state = true;
                    vensure!(o.raw_out_bytes == 0 && cmds.is_empty(), "{}: request while not connected-and-idle emitted bytes", at);
                    vensure!(o.err.is_some() || (o.events.is_empty() && o.out.is_empty()), "{}: request while not connected-and-idle was not refused", at);
                    inert.push(idx);
                    judged += 1;
                } else if state_known && !pending_create {
                    vensure!(o.err.is_none() && cmds.len() == 1 && n_out == 1, "{}: a request from the connected, idle state must emit exactly one createStream (err {:?}, {} createStream, {} messages)", at, o.err, cmds.len(), n_out);
                    vensure!(cmds[0].0.dec.msg.msid == 0, "{}: createStream sent on message stream {}", at, cmds[0].0.dec.msg.msid);
                    model.outstanding.insert(cmds[0].1 as u32, tx);
                    judged += 1;
                } else {
                    // don't-care: a second request while a createStream is unanswered, or state unspecified
                    if o.err.is_some() {
                        vensure!(o.raw_out_bytes == 0, "{}: refused request emitted bytes", at);
                    }
                    for (_, t, _, _) in cmds {
                        model.outstanding.insert(t as u32, tx.clone());
                    }
                }
                vensure!(accepted_ev == 0 && media.is_empty(), "{}: request call raised accepted/media events", at);
            }
            COp::StopPlayback | COp::StopPublishing => {
                let playback = matches!(op, COp::StopPlayback);
                let applies = if playback { matches!(model.st, St::PlayRequested | St::Playing) } else { matches!(model.st, St::PublishRequested | St::Publishing) };
                let dels = commands(&o, "deleteStream");
                if state_known && applies {
                    vensure!(o.err.is_none(), "{}: stop failed: {:?}", at, o.err);
                    vensure!(dels.len() == 1 && n_out == 1, "{}: stop must emit exactly one deleteStream, saw {} ({} messages)", at, dels.len(), n_out);
                    let arg = dels[0].3.iter().find_map(as_num);
                    vensure!(arg == model.active.map(|a| a as f64), "{}: deleteStream names stream {:?}, the active stream is {:?}", at, arg, model.active);
                    model.st = St::Connected;
                    model.last_active = model.active;
                    model.active = None;
                    judged += 1;
                } else if state_known {
                    refused_by_state = true;
                    vensure!(o.raw_out_bytes == 0 && o.events.is_empty(), "{}: stop with nothing to stop emitted bytes or events", at);
                    inert.push(idx);
                    judged += 1;
                } else if !dels.is_empty() {
                    model.st = St::Connected;
                    model.active = None;
                    // a stop that emitted deleteStream returns to connected: the state is determined again
                    model.unspecified = false;
                }
            }
            COp::PublishMetadata { .. } | COp::PublishAudio { .. } | COp::PublishVideo { .. } => {
                if state_known && model.st == St::Publishing {
                    vensure!(o.err.is_none() && n_out == 1, "{}: publishing media while publishing must emit exactly one message (err {:?}, {} messages)", at, o.err, n_out);
                    let m = o.out.iter().find(|m| !matches!(m.rm, Ok(RM::Ack(_)))).unwrap();
                    vensure!(Some(m.dec.msg.msid) == model.active, "{}: media sent on message stream {}, active stream is {:?}", at, m.dec.msg.msid, model.active);
                    match op {
                        COp::PublishAudio { len, ts, drop } => vensure!(m.dec.msg.type_id == 8 && m.dec.msg.ts == *ts && m.dec.msg.payload == fill_bytes(*ts, *len as usize) && m.droppable == *drop, "{}: audio message differs from what was published", at),
                        COp::PublishVideo { len, ts, drop } => vensure!(m.dec.msg.type_id == 9 && m.dec.msg.ts == *ts && m.dec.msg.payload == fill_bytes(*ts, *len as usize) && m.droppable == *drop, "{}: video message differs from what was published", at),
                        _ => match &m.rm {
                            Ok(RM::Data(vs)) => vensure!(vs.len() == 3 && as_str(&vs[0]).as_deref() == Some("@setDataFrame") && as_str(&vs[1]).as_deref() == Some("onMetaData") && !m.droppable, "{}: metadata message malformed: {:?}", at, vs),
                            other => vfail!("{}: metadata sent as {:?}", at, other),
                        },
                    }
                    judged += 1;
                } else if state_known {
                    refused_by_state = true;
                    vensure!(o.raw_out_bytes == 0, "{}: media published while not publishing emitted bytes", at);
                    vensure!(o.err.is_some() || o.out.is_empty(), "{}: media published while not publishing was not refused", at);
                    inert.push(idx);
                    judged += 1;
                }
            }
            COp::SendPing => {}
            COp::Result { tid, .. } | COp::Error { tid } => {
                let is_result = matches!(op, COp::Result { .. });
                let stream = if let COp::Result { stream, .. } = op { *stream } else { None };
                let (t, kind) = tid_value(&model, tid);
                let unknown_ev: Vec<u64> = o.events.iter().filter_map(|e| if let ClientSessionEvent::UnknownTransactionResultReceived { transaction_id, .. } = e { Some(transaction_id.to_bits()) } else { None }).collect();
                if kind != "outstanding" {
                    unknown_answer = true;
                    vensure!(unknown_ev == vec![t.to_bits()], "{}: an answer to the unknown transaction {} must be reported once as UnknownTransactionResultReceived, saw {:?} (err {:?})", at, t, unknown_ev, o.err);
                    vensure!(accepted_ev == 0 && n_out == 0 && media.is_empty(), "{}: an answer to an unknown transaction was applied", at);
                    inert.push(idx);
                    judged += 1;
                } else {
                    let tx = model.outstanding.remove(&(t as u32)).unwrap();
                    vensure!(unknown_ev.is_empty(), "{}: answer to the outstanding transaction {} reported as unknown", at, t);
                    match (tx, is_result) {
                        (Tx::Connect, true) => {
                            let acc = count_ev(&o, |e| matches!(e, ClientSessionEvent::ConnectionRequestAccepted));
                            vensure!(o.err.is_none() && acc == 1, "{}: connect result must raise exactly one ConnectionRequestAccepted (saw {}, err {:?})", at, acc, o.err);
                            vensure!(count_ev(&o, |e| matches!(e, ClientSessionEvent::PlaybackRequestAccepted | ClientSessionEvent::PublishRequestAccepted | ClientSessionEvent::ConnectionRequestRejected { .. })) == 0, "{}: connect result raised other request events", at);
                            if model.st == St::Disconnected {
                                model.st = St::Connected;
                            } else if state_known {
                                // a second connect result while already beyond connected: the statement is silent
                                model.unspecified = true;
                            }
                            model.answered.push(t as u32);
                            model.accepted_steps += 1;
                            judged += 1;
                        }
                        (Tx::Connect, false) => {
                            let rej = count_ev(&o, |e| matches!(e, ClientSessionEvent::ConnectionRequestRejected { .. }));
                            vensure!(o.err.is_none() && rej == 1 && accepted_ev == 0, "{}: connect error must raise exactly one ConnectionRequestRejected (saw {}, err {:?})", at, rej, o.err);
                            model.answered.push(t as u32);
                            judged += 1;
                        }
                        (tx, true) if stream.is_some() => {
                            let sid = returned_stream_id(stream.unwrap());
                            if state_known && model.st == St::Connected {
                                vensure!(o.err.is_none(), "{}: createStream result failed: {:?}", at, o.err);
                                match &tx {
                                    Tx::CreatePlay(key) => {
                                        let plays = commands(&o, "play");
                                        vensure!(plays.len() == 1 && commands(&o, "publish").is_empty(), "{}: createStream result for a playback request must emit exactly one play command (saw {})", at, plays.len());
                                        vensure!(plays[0].0.dec.msg.msid == sid, "{}: play sent on message stream {} but the server returned stream {}", at, plays[0].0.dec.msg.msid, sid);
                                        vensure!(plays[0].3.first().and_then(as_str).as_deref() == Some(key.as_str()), "{}: play names {:?}, requested key {:?}", at, plays[0].3.first(), key);
                                        model.st = St::PlayRequested;
                                    }
                                    Tx::CreatePublish(key, kind) => {
                                        let pubs = commands(&o, "publish");
                                        vensure!(pubs.len() == 1 && commands(&o, "play").is_empty(), "{}: createStream result for a publish request must emit exactly one publish command (saw {})", at, pubs.len());
                                        vensure!(pubs[0].0.dec.msg.msid == sid, "{}: publish sent on message stream {} but the server returned stream {}", at, pubs[0].0.dec.msg.msid, sid);
                                        let want_type = ["live", "record", "append"][*kind as usize % 3];
                                        vensure!(pubs[0].3.get(0).and_then(as_str).as_deref() == Some(key.as_str()) && pubs[0].3.get(1).and_then(as_str).as_deref() == Some(want_type), "{}: publish carries {:?}, requested {:?}/{}", at, pubs[0].3, key, want_type);
                                        model.st = St::PublishRequested;
                                    }
                                    Tx::Connect => unreachable!(),
                                }
                                vensure!(accepted_ev == 0, "{}: createStream result raised an accepted event", at);
                                model.active = Some(sid);
                                model.answered.push(t as u32);
                                model.accepted_steps += 1;
                                judged += 1;
                            } else {
                                // createStream result while another activity is in progress: don't-care
                                model.unspecified = true;
                            }
                        }
                        _ => {
                            // createStream answered by _error, or by a result without a stream id:
                            // the statement is silent (the code returns an error); the transaction
                            // is neither outstanding nor "answered" for later references
                            vensure!(accepted_ev == 0, "{}: raised an accepted event", at);
                        }
                    }
                }
            }
            COp::OnStatus { kind } => {
                let pa = count_ev(&o, |e| matches!(e, ClientSessionEvent::PlaybackRequestAccepted));
                let pu = count_ev(&o, |e| matches!(e, ClientSessionEvent::PublishRequestAccepted));
                vensure!(count_ev(&o, |e| matches!(e, ClientSessionEvent::ConnectionRequestAccepted)) == 0 && n_out == 0, "{}: onStatus raised a connection event or emitted messages", at);
                if state_known {
                    match (kind % 6, model.st) {
                        (0, St::PlayRequested) => {
                            vensure!(o.err.is_none() && pa == 1 && pu == 0, "{}: Play.Start while play is requested must raise PlaybackRequestAccepted once (saw {}/{}, err {:?})", at, pa, pu, o.err);
                            model.st = St::Playing;
                            model.accepted_steps += 1;
                            judged += 1;
                        }
                        (1, St::PublishRequested) => {
                            vensure!(o.err.is_none() && pu == 1 && pa == 0, "{}: Publish.Start while publish is requested must raise PublishRequestAccepted once (saw {}/{}, err {:?})", at, pu, pa, o.err);
                            model.st = St::Publishing;
                            model.accepted_steps += 1;
                            judged += 1;
                        }
                        (0, _) | (1, _) => {
                            refused_by_state = true;
                            vensure!(pa == 0 && pu == 0, "{}: start status in a state that did not request it raised an accepted event", at);
                            inert.push(idx);
                            judged += 1;
                        }
                        (2, _) => {
                            vensure!(pa == 0 && pu == 0, "{}: unrelated status code raised an accepted event", at);
                            inert.push(idx);
                            judged += 1;
                        }
                        _ => vensure!(pa == 0 && pu == 0, "{}: malformed onStatus raised an accepted event", at),
                    }
                } else {
                    match kind % 6 {
                        0 if pa == 1 => model.st = St::Playing,
                        1 if pu == 1 => model.st = St::Publishing,
                        _ => {}
                    }
                }
            }
            COp::Audio { active, ts, len } | COp::Video { active, ts, len } => {
                let is_audio = matches!(op, COp::Audio { .. });
                let on_active = *active && model.active.is_some();
                let other_ev = accepted_ev != 0 || n_out != 0 || count_ev(&o, |e| matches!(e, ClientSessionEvent::StreamMetadataReceived { .. })) != 0;
                vensure!(!other_ev, "{}: media message raised non-media events or output", at);
                if state_known {
                    if on_active && matches!(model.st, St::PlayRequested | St::Playing) {
                        vensure!(media.len() == 1 && media[0].0 == is_audio && media[0].1 == fill_bytes(*ts, *len as usize) && media[0].2 == *ts, "{}: media on the active stream while playing must raise exactly one matching event (saw {} events, err {:?})", at, media.len(), o.err);
                        obs.class("media-raised-while-playing");
                        judged += 1;
                    } else {
                        refused_by_state = true;
                        vensure!(media.is_empty(), "{}: media event raised although play is not requested/running on that stream (active {:?})", at, model.active);
                        inert.push(idx);
                        judged += 1;
                    }
                }
            }
            COp::OnMetaData { active, meta } => {
                let on_active = *active && model.active.is_some();
                let got: Vec<&StreamMetadata> = o.events.iter().filter_map(|e| if let ClientSessionEvent::StreamMetadataReceived { metadata } = e { Some(metadata) } else { None }).collect();
                vensure!(accepted_ev == 0 && n_out == 0 && media.is_empty(), "{}: metadata message raised other events or output", at);
                if state_known {
                    if !on_active {
                        vensure!(got.is_empty(), "{}: metadata event raised for a stream that is not the active one ({:?})", at, model.active);
                        inert.push(idx);
                        judged += 1;
                    } else if matches!(model.st, St::PlayRequested | St::Playing) {
                        vensure!(got.len() == 1 && meta_eq(got[0], &meta.to_lib()), "{}: metadata on the active stream while playing must be raised once, equal to what was sent (saw {:?})", at, got);
                        judged += 1;
                    }
                }
            }
            COp::Ping { ts } => {
                let pongs: Vec<Vec<u32>> = o.out.iter().filter_map(|m| match &m.rm { Ok(RM::UserControl(7, f)) => Some(f.clone()), _ => None }).collect();
                vensure!(o.err.is_none() && pongs.len() == 1 && pongs[0] == vec![*ts] && n_out == 1, "{}: ping request must be echoed by exactly one ping response with timestamp {}, saw {:?}", at, ts, pongs);
                vensure!(accepted_ev == 0 && media.is_empty(), "{}: ping raised events", at);
                judged += 1;
            }
            COp::Ack { .. } | COp::WindowAck { .. } | COp::PeerChunkSize(_) | COp::UnknownCommand { .. } => {
                vensure!(o.err.is_none(), "{}: benign control message failed: {:?}", at, o.err);
                vensure!(accepted_ev == 0 && media.is_empty() && n_out == 0, "{}: control message raised request/media events or output", at);
            }
        }
        traces.push(norm_obs(&o));
        let fatal = o.err.is_some() && matches!(concrete, Concrete::Peer { .. });
        log.push(concrete);
        if fatal && window_set {
            // an Err from handle_input is terminal once acknowledgements are due: every caller in
            // the repository closes the connection on it (results gathered earlier in that call are
            // lost by the API), so the history ends here
            ended_by_error = true;
            break;
        }
        if fatal {
            continued_after_error = true;
        }
    }
    // twin run without the inert operations: everything else must be observed identically
    if !inert.is_empty() {
        let mut twin = match Exec::new(case.chunk_size) {
            Ok(e) => e,
            Err(e) => return Verdict::Fail(e),
        };
        for (idx, c) in log.iter().enumerate() {
            if inert.contains(&idx) {
                continue;
            }
            match twin.run(c) {
                Ok(o) => {
                    let t = norm_obs(&o);
                    vensure!(t == traces[idx], "op {} {:?}: observations differ from a twin session that never saw the refused / not-applicable operation(s) {:?}: one of them changed state.\n with them: {}\n without:   {}", idx, case.ops[idx].0, inert, truncate(&traces[idx], 600), truncate(&t, 600));
                }
                Err(e) => vfail!("twin run: undecodable output at op {}: {}", idx, e),
            }
        }
        judged += 1;
    }
    obs.count("judged-assertions", judged);
    obs.class_if(refused_by_state, "operation-refused-by-state");
    obs.class_if(unknown_answer, "answer-to-unknown-transaction");
    obs.class_if(model.unspecified, "unspecified-state-reached");
    obs.class_if(!inert.is_empty(), "twin-run-compared");
    obs.class_if(ended_by_error, "history-ended-by-handle-input-error");
    obs.class_if(continued_after_error, "history-continued-after-handle-input-error");
    obs.count("operations-executed", log.len() as u64 - skipped);
    obs.class(match model.st {
        St::Disconnected => "ends-disconnected",
        St::Connected => "ends-connected",
        St::PlayRequested => "ends-play-requested",
        St::Playing => "ends-playing",
        St::PublishRequested => "ends-publish-requested",
        St::Publishing => "ends-publishing",
    });
    obs.nontrivial = model.accepted_steps >= 1 && (refused_by_state || unknown_answer);
    Verdict::Pass(obs)
}

// ------------------------------------------------------------------------------------------------
// generators

fn tid_ref() -> BoxedStrategy<TidRef> {
    prop_oneof![7 => any::<u16>().prop_map(TidRef::Outstanding), 2 => any::<u16>().prop_map(TidRef::Answered), 2 => (0u8..5).prop_map(TidRef::Special), 2 => (0u8..3).prop_map(TidRef::Next), 1 => (any::<u16>(), 0u8..5).prop_map(|(i, k)| TidRef::Aliased(i, k))].boxed()
}

pub fn cop() -> BoxedStrategy<COp> {
    prop_oneof![
        3 => (0u8..3).prop_map(|app| COp::RequestConnection { app }),
        3 => (0u8..3).prop_map(|key| COp::RequestPlayback { key }),
        3 => (0u8..3, 0u8..3).prop_map(|(key, kind)| COp::RequestPublishing { key, kind }),
        2 => Just(COp::StopPlayback),
        2 => Just(COp::StopPublishing),
        2 => meta().prop_map(|meta| COp::PublishMetadata { meta }),
        3 => (0u16..300, gen::edge_u32(), any::<bool>()).prop_map(|(len, ts, drop)| COp::PublishAudio { len, ts, drop }),
        2 => (0u16..300, gen::edge_u32(), any::<bool>()).prop_map(|(len, ts, drop)| COp::PublishVideo { len, ts, drop }),
        1 => Just(COp::SendPing),
        9 => (tid_ref(), prop_oneof![5 => (0u8..4).prop_map(Some), 1 => (250u8..=255).prop_map(Some), 1 => Just(None)]).prop_map(|(tid, stream)| COp::Result { tid, stream }),
        2 => tid_ref().prop_map(|tid| COp::Error { tid }),
        6 => (prop_oneof![4 => Just(0u8), 4 => Just(1u8), 1 => Just(2u8), 1 => 3u8..6], prop_oneof![3 => Just(0u8), 1 => Just(6u8)]).prop_map(|(kind, own)| COp::OnStatus { kind: kind + own }),
        3 => (prop::bool::weighted(0.8), gen::edge_u32(), 0u16..300).prop_map(|(active, ts, len)| COp::Audio { active, ts, len }),
        3 => (prop::bool::weighted(0.8), gen::edge_u32(), 0u16..300).prop_map(|(active, ts, len)| COp::Video { active, ts, len }),
        2 => (prop::bool::weighted(0.8), meta()).prop_map(|(active, meta)| COp::OnMetaData { active, meta }),
        2 => gen::edge_u32().prop_map(|ts| COp::Ping { ts }),
        1 => any::<u32>().prop_map(|v| COp::Ack { v }),
        1 => prop_oneof![1u32..500, any::<u32>()].prop_map(|v| COp::WindowAck { v }),
        1 => gen::chunk_size().prop_map(COp::PeerChunkSize),
        1 => any::<u8>().prop_map(|k| COp::UnknownCommand { k }),
    ]
    .boxed()
}

fn connected_prefix() -> Vec<(COp, u16, u8)> {
    vec![(COp::RequestConnection { app: 0 }, 0, 0), (COp::Result { tid: TidRef::Outstanding(0), stream: None }, 0, 0)]
}

fn play_requested_prefix() -> Vec<(COp, u16, u8)> {
    let mut v = connected_prefix();
    v.push((COp::RequestPlayback { key: 0 }, 0, 0));
    v.push((COp::Result { tid: TidRef::Outstanding(0), stream: Some(2) }, 0, 0));
    v
}

fn publishing_prefix() -> Vec<(COp, u16, u8)> {
    let mut v = connected_prefix();
    v.push((COp::RequestPublishing { key: 1, kind: 0 }, 0, 0));
    v.push((COp::Result { tid: TidRef::Outstanding(0), stream: Some(1) }, 0, 0));
    v.push((COp::OnStatus { kind: 1 }, 0, 0));
    v
}

pub fn case_strategy(max_ops: usize) -> BoxedStrategy<Case> {
    let ops = proptest::collection::vec((cop(), prop_oneof![2 => Just(0u16), 1 => any::<u16>()], any::<u8>()), 1..max_ops);
    (0u8..5, ops, prop_oneof![Just(4096u32), Just(128u32), 1u32..200])
        .prop_map(|(warm, mut ops, chunk_size)| {
            let mut pre = match warm {
                0 | 1 => Vec::new(),
                2 => connected_prefix(),
                3 => play_requested_prefix(),
                _ => publishing_prefix(),
            };
            pre.append(&mut ops);
            Case { ops: pre, chunk_size }
        })
        .boxed()
}

pub fn alphabet() -> Vec<COp> {
    vec![
        COp::RequestConnection { app: 1 },
        COp::RequestPlayback { key: 0 },
        COp::RequestPublishing { key: 2, kind: 1 },
        COp::StopPlayback,
        COp::StopPublishing,
        COp::PublishAudio { len: 4, ts: 9, drop: true },
        COp::Result { tid: TidRef::Outstanding(0), stream: Some(4) },
        COp::Result { tid: TidRef::Answered(0), stream: Some(7) },
        COp::Result { tid: TidRef::Next(0), stream: Some(2) },
        COp::Error { tid: TidRef::Outstanding(0) },
        COp::OnStatus { kind: 0 },
        COp::OnStatus { kind: 1 },
        COp::Audio { active: true, ts: 0xFF_FFFF, len: 3 },
        COp::Ping { ts: 1 },
    ]
}

fn exhaustive_cases(ctx: &Ctx) -> Vec<Case> {
    let alpha = alphabet();
    let max_len = if ctx.tier == Tier::Thorough { 5 } else { 4 };
    fn rec(alpha: &[COp], cur: &mut Vec<usize>, max_len: usize, out: &mut Vec<Vec<(COp, u16, u8)>>) {
        if !cur.is_empty() {
            out.push(cur.iter().map(|i| (alpha[*i].clone(), 0u16, 0u8)).collect());
        }
        if cur.len() == max_len {
            return;
        }
        for i in 0..alpha.len() {
            cur.push(i);
            rec(alpha, cur, max_len, out);
            cur.pop();
        }
    }
    let mut out = Vec::new();
    let mut scratch = Vec::new();
    rec(&alpha, &mut Vec::new(), max_len, &mut scratch);
    for ops in scratch {
        out.push(Case { ops, chunk_size: 4096 });
    }
    let mut deep = Vec::new();
    rec(&alpha, &mut Vec::new(), max_len - 1, &mut deep);
    for prefix in [connected_prefix(), play_requested_prefix(), publishing_prefix()] {
        for d in &deep {
            let mut ops = prefix.clone();
            ops.extend(d.iter().cloned());
            out.push(Case { ops, chunk_size: 4096 });
        }
    }
    out
}

pub fn spec() -> PropSpec {
    PropSpec {
        id: "C10",
        level: "exploration",
        rule: "histories of 1..25 operations over application calls {request_connection, request_playback, request_publishing, stop_playback, stop_publishing, publish_metadata/audio/video, send_ping_request} and server messages {_result / _error with an outstanding, already-answered or unknown transaction id (0, -1, NaN, 2^33, never issued, the next id to be issued, an outstanding id plus or minus 2^32 or plus a fraction), with / without a stream id; onStatus with Play.Start, Publish.Start, another code, no code, a non-object, no argument; audio / video / onMetaData on the active or another stream; ping; acknowledgement; window size; peer chunk size; unknown commands}, encoded by the reference peer and delivered whole or cut in two; 60% of histories start behind a connected / play-requested / publishing prefix. Plus ALL sequences of length <= 4 (quick) / <= 5 (thorough) over a fixed 14-letter alphabet from scratch and of length <= 3 / <= 4 behind each of three prefixes. ModelClient judges the clauses of the statement and follows the observation where it is silent; operations that must not change anything (refused by state, answers to unknown transactions, start status in the wrong state, media for a non-active stream) are additionally removed in a twin run whose remaining observations must be identical. Non-trivial = at least one accepted step and (an operation refused by state or an answer to a non-outstanding transaction); distinct = distinct history",
        assumptions: vec![
            "ModelClient is written from the statement; don't-cares: a second play/publish request while a createStream is unanswered, a createStream result arriving while another activity is in progress, a second connect result, createStream answered by _error or without a stream id, metadata gating by state (asserted: never for a non-active stream)",
            "each server message is delivered in its own call(s); an Err return is an acceptable refusal",
            "session-generated timestamps, ping-request payloads and Acknowledgements are masked in the twin-run comparison",
        ],
        checks: vec![
            PropCheck::new("random-histories", |ctx| case_strategy(if ctx.tier == Tier::Thorough { 40 } else { 25 }), 80_000, 2_000_000, eval),
            EnumCheck::new("bounded-exhaustive", true, exhaustive_cases, eval),
        ],
    }
}
