//! C13 — RTMP message bodies follow the specification and convert back losslessly.
//! Oracle: RefMsg (bodies written from the specification) + RefAmf0.

use crate::core::*;
use crate::gen::{self, AmfCfg};
use crate::refs::amf0::{self as ra, S, V};
use crate::refs::msg::{self as rm, RM};
use bytes::Bytes;
use proptest::prelude::*;
use rml_rtmp::messages::{MessagePayload, RtmpMessage};
use rml_rtmp::time::RtmpTimestamp;
use serde::{Deserialize, Serialize};

#[derive(Clone, Debug, Serialize, Deserialize)]
pub struct Case {
    pub msg: RM,
    pub ts: u32,
    pub msid: u32,
}

fn body_bytes() -> BoxedStrategy<Vec<u8>> {
    prop_oneof![
        1 => Just(Vec::new()),
        4 => proptest::collection::vec(any::<u8>(), 1..20),
        2 => proptest::collection::vec(any::<u8>(), 20..2000),
    ]
    .boxed()
}

pub fn rm_strategy() -> BoxedStrategy<RM> {
    let u = gen::edge_u32;
    prop_oneof![
        2 => prop_oneof![3 => 0u32..0x8000_0000, 2 => gen::pick(&[0u32, 1, 128, 4096, 0x7FFF_FFFF, 0x7FFF_FFFE])].prop_map(RM::SetChunkSize),
        1 => u().prop_map(RM::Abort),
        2 => u().prop_map(RM::Ack),
        2 => u().prop_map(RM::WindowAck),
        2 => (u(), 0u8..3).prop_map(|(v, l)| RM::PeerBw(v, l)),
        4 => (gen::pick(rm::UC_EVENTS), u(), u()).prop_map(|(ev, a, b)| {
            let n = rm::uc_field_count(ev).unwrap();
            RM::UserControl(ev, [a, b][..n].to_vec())
        }),
        2 => body_bytes().prop_map(RM::Audio),
        2 => body_bytes().prop_map(RM::Video),
        4 => gen::amf_values(AmfCfg::LIB_CHAIN, 5).prop_map(RM::Data),
        5 => (gen::amf_string(false, true), gen::amf_number_bits(), gen::amf_value(AmfCfg::LIB_CHAIN), gen::amf_values(AmfCfg::LIB_CHAIN, 4))
            .prop_map(|(n, t, o, a)| RM::Command(n, t, o, a)),
        2 => (any::<u8>().prop_filter("unknown type ids only", |t| !rm::KNOWN_TYPES.contains(t)), body_bytes()).prop_map(|(t, d)| RM::Unknown(t, d)),
    ]
    .boxed()
}

fn amf_body_matches(type_id: u8, body: &[u8], want: &RtmpMessage) -> Result<(), String> {
    // AMF0 bodies: parse with the strict ordered reference decoder, compare what they denote, and
    // require the bytes to be the canonical encoding of their own content (byte-exact conformance
    // irrespective of HashMap order)
    let parsed = RM::parse(type_id, body).map_err(|e| format!("body is not a well-formed AMF0 {} body: {}", if type_id == 20 { "command" } else { "data" }, e))?;
    if !rm::msg_eq(&parsed.to_lib(), want) {
        return Err(format!("body denotes {} instead of {}", rm::brief_msg(&parsed.to_lib()), rm::brief_msg(want)));
    }
    let again = parsed.body().map_err(|e| format!("HARNESS: reference cannot re-encode: {}", e))?;
    if again != body {
        return Err("body is not the canonical AMF0 encoding of its content".to_string());
    }
    Ok(())
}

fn boundary_u32(v: u32) -> bool {
    gen::U32_EDGES.contains(&v)
}

fn classify(m: &RM, obs: &mut Obs) {
    let (name, nt): (&'static str, bool) = match m {
        RM::SetChunkSize(v) => ("set-chunk-size", boundary_u32(*v)),
        RM::Abort(v) => ("abort", boundary_u32(*v)),
        RM::Ack(v) => ("acknowledgement", boundary_u32(*v)),
        RM::WindowAck(v) => ("window-ack", boundary_u32(*v)),
        RM::PeerBw(v, _) => ("peer-bandwidth", boundary_u32(*v)),
        RM::UserControl(_, f) => ("user-control", f.iter().any(|x| boundary_u32(*x))),
        RM::Audio(d) => ("audio", d.is_empty()),
        RM::Video(d) => ("video", d.is_empty()),
        RM::Data(vs) => ("amf0-data", vs.iter().any(ra::has_container)),
        RM::Command(_, _, o, a) => ("amf0-command", ra::has_container(o) || a.iter().any(ra::has_container)),
        RM::Unknown(_, d) => ("unknown-type", d.is_empty()),
    };
    obs.class(name);
    obs.nontrivial_if(nt);
}

/// A case judged right after a call on the same thread that the library refused half way.
#[derive(Clone, Debug, Serialize, Deserialize)]
pub struct AfterRefusal {
    pub kind: u8,
    pub case: Case,
}

/// message -> payload -> message
pub fn eval_roundtrip(c: &Case) -> Verdict {
    let lib_msg = c.msg.to_lib();
    let want_body = match c.msg.body() {
        Ok(b) => b,
        Err(e) => return Verdict::Harness(format!("generator produced an unencodable message: {}", e)),
    };
    let payload = match MessagePayload::from_rtmp_message(lib_msg.clone(), RtmpTimestamp::new(c.ts), c.msid) {
        Ok(p) => p,
        Err(e) => vfail!("from_rtmp_message refused a well-formed message {}: {:?}", rm::brief_msg(&lib_msg), e),
    };
    vensure!(payload.type_id == c.msg.type_id(), "type id {} but the specification assigns {}", payload.type_id, c.msg.type_id());
    vensure!(payload.timestamp.value == c.ts && payload.message_stream_id == c.msid, "timestamp / message stream id not carried over ({} / {})", payload.timestamp.value, payload.message_stream_id);
    match &c.msg {
        RM::Data(_) | RM::Command(_, _, _, _) => {
            if let Err(e) = amf_body_matches(payload.type_id, &payload.data, &lib_msg) {
                if e.starts_with("HARNESS") {
                    return Verdict::Harness(e);
                }
                return Verdict::Fail(e);
            }
        }
        _ => {
            vensure!(&payload.data[..] == &want_body[..], "body {:02x?} but the specification prescribes {:02x?} for {}", &payload.data[..payload.data.len().min(24)], &want_body[..want_body.len().min(24)], rm::brief_msg(&lib_msg));
        }
    }
    match payload.to_rtmp_message() {
        Ok(back) => vensure!(rm::msg_eq(&back, &lib_msg), "payload converts back to {} instead of {}", rm::brief_msg(&back), rm::brief_msg(&lib_msg)),
        Err(e) => vfail!("payload produced by from_rtmp_message does not convert back: {:?}", e),
    }
    // the library type's own accessor agrees
    vensure!(lib_msg.get_message_type_id() == c.msg.type_id(), "get_message_type_id disagrees");
    let mut obs = Obs::new();
    classify(&c.msg, &mut obs);
    Verdict::Pass(obs)
}

/// reference-encoded body -> library message (decoder direction), including the 15 / 17 aliases
#[derive(Clone, Debug, Serialize, Deserialize)]
pub struct DecCase {
    pub msg: RM,
    /// 0 = native type id; 1 = AMF3 alias (15 / 17) ; 2 = alias 17 with a leading 0x00
    pub alias: u8,
}

fn eval_decode(c: &DecCase) -> Verdict {
    let body = match c.msg.body() {
        Ok(b) => b,
        Err(e) => return Verdict::Harness(format!("generator produced an unencodable message: {}", e)),
    };
    let mut type_id = c.msg.type_id();
    let mut data = body.clone();
    let mut obs = Obs::new();
    match (&c.msg, c.alias) {
        (RM::Data(_), 1) | (RM::Data(_), 2) => {
            type_id = 15;
            obs.class("amf3-data-alias");
            obs.nontrivial = true;
        }
        (RM::Command(_, _, _, _), 1) => {
            type_id = 17;
            obs.class("amf3-command-alias-without-leading-zero");
            obs.nontrivial = true;
        }
        (RM::Command(_, _, _, _), 2) => {
            type_id = 17;
            data.insert(0, 0);
            obs.class("amf3-command-alias-with-leading-zero");
            obs.nontrivial = true;
        }
        _ => {}
    }
    let payload = MessagePayload { timestamp: RtmpTimestamp::new(7), type_id, message_stream_id: 1, data: Bytes::from(data) };
    let want = c.msg.to_lib();
    match payload.to_rtmp_message() {
        Ok(got) => vensure!(rm::msg_eq(&got, &want), "type {} body decodes to {} but denotes {}", type_id, rm::brief_msg(&got), rm::brief_msg(&want)),
        Err(e) => vfail!("type {} body of a well-formed {} is rejected: {:?}", type_id, rm::brief_msg(&want), e),
    }
    classify(&c.msg, &mut obs);
    Verdict::Pass(obs)
}

/// all 256 type ids x arbitrary bodies
#[derive(Clone, Debug, Serialize, Deserialize)]
pub struct RawCase {
    pub type_id: u8,
    pub body: Vec<u8>,
}

fn eval_raw(c: &RawCase) -> Verdict {
    let payload = MessagePayload { timestamp: RtmpTimestamp::new(1), type_id: c.type_id, message_stream_id: 3, data: Bytes::from(c.body.clone()) };
    let r = payload.to_rtmp_message();
    let mut obs = Obs::new();
    if !rm::KNOWN_TYPES.contains(&c.type_id) {
        obs.class("unknown-type-id");
        match r {
            Ok(RtmpMessage::Unknown { type_id, data }) => {
                vensure!(type_id == c.type_id && &data[..] == &c.body[..], "unknown type {} not passed through untouched", c.type_id);
                // and back
                match MessagePayload::from_rtmp_message(RtmpMessage::Unknown { type_id, data }, RtmpTimestamp::new(1), 3) {
                    Ok(p) => vensure!(p.type_id == c.type_id && &p.data[..] == &c.body[..], "Unknown message does not convert back to the same payload"),
                    Err(e) => vfail!("Unknown message refused by from_rtmp_message: {:?}", e),
                }
            }
            other => vfail!("type id {} must pass through as Unknown, got {:?}", c.type_id, other.map(|m| rm::brief_msg(&m))),
        }
        obs.nontrivial = true;
        return Verdict::Pass(obs);
    }
    // known fixed-layout types: a body of exactly the specified layout must decode to what it
    // denotes; a body too short for the layout must be rejected
    match c.type_id {
        1 | 2 | 3 | 5 | 6 | 4 => {
            let reference = RM::parse(c.type_id, &c.body);
            let exact_len = match c.type_id {
                6 => 5,
                4 => {
                    if c.body.len() >= 2 {
                        rm::uc_field_count(u16::from_be_bytes([c.body[0], c.body[1]])).map(|n| 2 + 4 * n).unwrap_or(usize::MAX)
                    } else {
                        usize::MAX
                    }
                }
                _ => 4,
            };
            match (&reference, &r) {
                (Ok(RM::SetChunkSize(v)), _) if *v > 0x7FFF_FFFF => {
                    obs.class("chunk-size-top-bit-set");
                    obs.nontrivial = true;
                    vensure!(r.is_err(), "Set Chunk Size body with the top bit set ({}) must be rejected", v);
                }
                (Ok(want), Ok(got)) => {
                    if c.body.len() == exact_len {
                        vensure!(rm::msg_eq(got, &want.to_lib()), "type {} body {:02x?} decodes to {} but denotes {}", c.type_id, c.body, rm::brief_msg(got), rm::brief_msg(&want.to_lib()));
                        obs.class("fixed-layout-exact");
                        obs.nontrivial = true;
                    } else {
                        obs.class("fixed-layout-overlong-not-judged");
                    }
                }
                (Ok(want), Err(e)) => {
                    if c.body.len() == exact_len {
                        vfail!("well-formed type {} body {:02x?} ({}) rejected: {:?}", c.type_id, c.body, rm::brief_msg(&want.to_lib()), e);
                    }
                    obs.class("fixed-layout-overlong-not-judged");
                }
                (Err(_), Ok(got)) => {
                    if c.body.len() < exact_len.min(4) || (c.type_id == 6 && c.body.len() < 5) {
                        vfail!("type {} body of {} bytes is too short for its layout but decodes to {}", c.type_id, c.body.len(), rm::brief_msg(got));
                    }
                    obs.class("malformed-accepted-not-judged");
                }
                (Err(_), Err(_)) => obs.class("malformed-rejected"),
            }
        }
        8 | 9 => match r {
            Ok(RtmpMessage::AudioData { data }) if c.type_id == 8 => vensure!(&data[..] == &c.body[..], "audio bytes altered"),
            Ok(RtmpMessage::VideoData { data }) if c.type_id == 9 => vensure!(&data[..] == &c.body[..], "video bytes altered"),
            other => vfail!("type {} must decode to audio/video data, got {:?}", c.type_id, other.map(|m| rm::brief_msg(&m))),
        },
        _ => {
            // AMF bodies from arbitrary bytes: only "returns a value or an error" (no panic), which
            // eval_guarded enforces; conformance of AMF bodies is C12 and the decode sub-check
            obs.class(if r.is_ok() { "amf-arbitrary-accepted" } else { "amf-arbitrary-rejected" });
        }
    }
    Verdict::Pass(obs)
}

/// chunk sizes above 2^31-1 are rejected in both directions
#[derive(Clone, Debug, Serialize, Deserialize)]
pub struct SizeCase {
    pub size: u32,
}

fn eval_size(c: &SizeCase) -> Verdict {
    let legal = c.size <= 0x7FFF_FFFF;
    let out = MessagePayload::from_rtmp_message(RtmpMessage::SetChunkSize { size: c.size }, RtmpTimestamp::new(0), 0);
    let payload = MessagePayload { timestamp: RtmpTimestamp::new(0), type_id: 1, message_stream_id: 0, data: Bytes::from(c.size.to_be_bytes().to_vec()) };
    let back = payload.to_rtmp_message();
    if legal {
        match out {
            Ok(p) => vensure!(&p.data[..] == &c.size.to_be_bytes()[..] && p.type_id == 1, "Set Chunk Size {} encoded as {:02x?}", c.size, &p.data[..]),
            Err(e) => vfail!("legal chunk size {} refused: {:?}", c.size, e),
        }
        match back {
            Ok(RtmpMessage::SetChunkSize { size }) => vensure!(size == c.size, "chunk size {} decoded as {}", c.size, size),
            other => vfail!("legal chunk size {} body rejected: {:?}", c.size, other.map(|m| rm::brief_msg(&m))),
        }
    } else {
        vensure!(out.is_err(), "chunk size {} (> 2^31-1) accepted by from_rtmp_message", c.size);
        vensure!(back.is_err(), "chunk size body {} (> 2^31-1) accepted by to_rtmp_message", c.size);
    }
    let mut obs = Obs::new();
    obs.class(if legal { "legal-size" } else { "size-above-2^31-1" });
    obs.nontrivial = (c.size as i64 - 0x8000_0000i64).abs() <= 2 || !legal;
    Verdict::Pass(obs)
}

pub fn spec() -> PropSpec {
    let _ = (S::lit(""), V::Null);
    PropSpec {
        id: "C13",
        level: "exploration",
        rule: "(AMF0 arguments include chains of up to 128 nested containers and wide arrays; sub-check '...-after-a-refused-call' converts a message right after a half-way refused one on the same thread) every RtmpMessage variant with fields from the u32 edge pool, all 9 user-control events with exactly the fields the specification gives them, 3 limit types, AMF0 argument lists from the AMF0 generator (bitwise equality), audio/video bytes 0..2000, Unknown only with type ids outside {1,2,3,4,5,6,8,9,15,17,18,20}; decoder direction from RefMsg-encoded bodies incl. the AMF3 aliases 15 / 17 (with and without leading 0x00); all 256 type ids x arbitrary bodies; chunk sizes around 2^31. Non-trivial = a field at a boundary value, an empty media body, an AMF0 list with a container, an alias, an unknown type id, or an exact-layout control body; distinct = distinct case",
        assumptions: vec![
            "RefMsg transcribes RTMP 1.0 sections 5.4 / 6.2 / 7.1; AMF0 bodies are judged through RefAmf0 (see C12)",
            "control bodies longer than their layout are not judged (the specification gives exact lengths; the library ignores trailing bytes)",
            "UserControl messages are generated well-formed (with exactly the fields of their event type)",
        ],
        checks: vec![
            PropCheck::new("message-to-payload-and-back", |_| (rm_strategy(), gen::edge_u32(), gen::edge_u32()).prop_map(|(msg, ts, msid)| Case { msg, ts, msid }).boxed(), 120_000, 4_000_000, eval_roundtrip),
            PropCheck::new("message-to-payload-and-back-after-a-refused-call", |_| (1u8..6, rm_strategy(), gen::edge_u32(), gen::edge_u32()).prop_map(|(kind, msg, ts, msid)| AfterRefusal { kind, case: Case { msg, ts, msid } }).boxed(), 20_000, 500_000, |c: &AfterRefusal| { ra::disturb(c.kind); eval_roundtrip(&c.case) }),
            PropCheck::new("reference-body-decodes", |_| {
                let m = prop_oneof![
                    3 => rm_strategy(),
                    2 => gen::amf_values(AmfCfg::WIRE_CHAIN, 5).prop_map(RM::Data),
                    3 => (gen::amf_string(false, true), gen::amf_number_bits(), gen::amf_value(AmfCfg::WIRE_CHAIN), gen::amf_values(AmfCfg::WIRE_CHAIN, 4)).prop_map(|(n, t, o, a)| RM::Command(n, t, o, a)),
                ];
                (m, 0u8..3).prop_filter("legal chunk sizes only", |(m, _)| !matches!(m, RM::SetChunkSize(v) if *v > 0x7FFF_FFFF)).prop_map(|(msg, alias)| DecCase { msg, alias }).boxed()
            }, 120_000, 4_000_000, eval_decode),
            PropCheck::new("all-type-ids-arbitrary-bodies", |_| {
                let body = prop_oneof![
                    3 => proptest::collection::vec(any::<u8>(), 0..12),
                    2 => (gen::pick(rm::UC_EVENTS), proptest::collection::vec(any::<u8>(), 0..10)).prop_map(|(e, mut b)| { let mut v = e.to_be_bytes().to_vec(); v.append(&mut b); v }),
                    1 => proptest::collection::vec(any::<u8>(), 12..200),
                    3 => (4usize..7).prop_flat_map(|n| proptest::collection::vec(any::<u8>(), n)),
                    2 => (gen::pick(rm::UC_EVENTS), proptest::collection::vec(any::<u8>(), 8)).prop_map(|(e, b)| { let n = rm::uc_field_count(e).unwrap(); let mut v = e.to_be_bytes().to_vec(); v.extend_from_slice(&b[..4 * n]); v }),
                ];
                (prop_oneof![1 => any::<u8>(), 2 => gen::pick(rm::KNOWN_TYPES)], body).prop_map(|(type_id, body)| RawCase { type_id, body }).boxed()
            }, 200_000, 5_000_000, eval_raw),
            EnumCheck::new("type-id-sweep", true, |_| {
                let mut v = Vec::new();
                for t in 0..=255u8 {
                    for body in [vec![], vec![0u8], vec![0, 0, 0, 5], vec![0, 0, 0, 5, 2], vec![0, 6, 0, 0, 0, 9], vec![0x80, 0, 0, 0], vec![2, 0, 1, b'x', 0, 0, 0, 0, 0, 0, 0, 0, 0, 5]] {
                        v.push(RawCase { type_id: t, body });
                    }
                }
                v
            }, eval_raw),
            PropCheck::new("chunk-size-limit", |_| prop_oneof![2 => (-4i64..5).prop_map(|k| (0x8000_0000i64 + k) as u32), 1 => any::<u32>(), 1 => gen::edge_u32()].prop_map(|size| SizeCase { size }).boxed(), 20_000, 500_000, eval_size),
        ],
    }
}
