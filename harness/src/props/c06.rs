//! C06 — the deserializer decodes every spec-conformant foreign chunk stream.
//! Oracle: differential against the specification — RefChunkEnc ("foreign sender") produces the
//! stream, RefChunkDec self-checks it, the library must return exactly the generated messages.

use crate::core::*;
use crate::drive::*;
use crate::gen::{self, Partition};
use crate::refs::chunk::Msg;
use proptest::prelude::*;
use serde::{Deserialize, Serialize};

#[derive(Clone, Debug, Serialize, Deserialize)]
pub struct Case {
    pub ops: Vec<FOp>,
    pub partition: Partition,
}

pub fn eval(case: &Case) -> Verdict {
    let f = encode_foreign(&case.ops);
    // self-check of the reference pair (a failure here is a harness bug, never a violation)
    let (dec, map) = match ref_decode(!f.non_minimal_csid, &f.stream) {
        Ok(x) => x,
        Err(e) => return Verdict::Harness(format!("RefChunkDec rejects RefChunkEnc output: {}", e)),
    };
    let refmsgs: Vec<Msg> = dec.iter().map(|d| d.msg.clone()).collect();
    if let Some(d) = first_difference(&refmsgs, &f.expected) {
        return Verdict::Harness(format!("RefChunkDec does not invert RefChunkEnc: {}", d));
    }
    let (got, err) = lib_decode(&f.stream, &case.partition);
    if let Some(e) = err {
        vfail!("deserializer error after {} of {} messages on a conformant stream: {}", got.len(), f.expected.len(), e);
    }
    if let Some(d) = first_difference(&got, &f.expected) {
        vfail!("conformant stream decoded differently: {}", d);
    }
    let mut obs = Obs::new();
    classify_stream(&dec, &mut obs);
    classify_cuts(&map, &case.partition.ends(f.stream.len()), &mut obs);
    obs.nontrivial = dec.iter().any(|d| {
        d.first_fmt == 3
            || (d.first_fmt != 0 && d.ext_first)
            || d.basic_len > 1
            || (d.chunks > 1 && d.ext_first)
            || (d.msg.payload.is_empty() && d.first_fmt != 0)
    });
    Verdict::Pass(obs)
}

pub fn spec() -> PropSpec {
    PropSpec {
        id: "C06",
        level: "exploration",
        rule: "message sequences encoded by RefChunkEnc, a foreign sender that per message draws a chunk stream id (2..8, 63, 64, 65, 318..321, 65598, 65599, any; 2-byte or legal 3-byte form), a wanted header format 0..3 lowered to the most compressed LEGAL format for that chunk stream's history, format-3 continuation chunks with the extended field repeated (rarely format-0 continuation), zero-length messages and in-band Set Chunk Size; fields from a per-case palette so formats 2 and 3 are frequent; delivered under a generated partition (optionally with empty polls); sub-check 'foreign-stream-many-chunk-streams': 63..4097 distinct chunk stream ids, then compressed follow-ups on older ones; sub-check 'foreign-stream-kilobyte-chunks': chunk sizes 4095..65536, messages up to 70000 bytes. Non-trivial = the stream contains a format-3 new message, a format 1/2 with extended delta, a 2/3-byte csid, a multi-chunk message with extended timestamp, or a zero-length message with a compressed header; distinct = distinct (ops, partition)",
        assumptions: vec![
            "RefChunkEnc/RefChunkDec transcribe RTMP 1.0 section 5.3.1; they are self-checked against each other on every case (disagreement = harness error, exit 2)",
            "messages are sent one after another (interleaving is C16); senders that omit the extended timestamp on format-3 chunks are outside the statement",
            "a delta is any u32 (timestamps are modulo 2^32)",
        ],
        checks: vec![
            PropCheck::new("foreign-stream", |ctx| {
                let n = if ctx.tier == Tier::Thorough { 30 } else { 12 };
                (gen::foreign_ops(n, 8, 3000), gen::partition()).prop_map(|(ops, partition)| Case { ops, partition }).boxed()
            }, 300_000, 6_000_000, eval),
            PropCheck::new("foreign-stream-many-chunk-streams", |_| (gen::foreign_ops_many_streams(), gen::partition_large()).prop_map(|(ops, partition)| Case { ops, partition }).boxed(), 1_500, 40_000, eval),
            PropCheck::new("foreign-stream-kilobyte-chunks", |_| (gen::foreign_ops_large(6), gen::partition_large()).prop_map(|(ops, partition)| Case { ops, partition }).boxed(), 6_000, 200_000, eval),
            crate::targets::corpus_check(&["foreign_stream"]),
        ],
    }
}
