//! C09 — the server session follows the request/stream state machine in every history.
//! Oracle: ModelServer, an abstract three-valued state machine written from the statement of C09
//! (judge / don't-care), plus a metamorphic twin run for "refused without side effects".

use crate::core::*;
use crate::gen::{self, fill_bytes};
use crate::props::c02::{meta, meta_eq, Meta};
use crate::refs::amf0::{self as ra, V};
use crate::refs::msg::RM;
use crate::sess::*;
use bytes::Bytes;
use proptest::prelude::*;
use rml_rtmp::sessions::*;
use rml_rtmp::time::RtmpTimestamp;
use serde::{Deserialize, Serialize};
use std::collections::{BTreeMap, BTreeSet};

// one of the names is not ASCII (the server echoes names in its status descriptions)
pub const APPS: &[&str] = &["live", "caf\u{e9}", "vod/inst"];
pub const KEYS: &[&str] = &["key1", "\u{43a}\u{43b}\u{44e}\u{447}-\u{30e9}\u{30a4}\u{30d6}", "stream?x=1"];

/// Stream key for a key index: 0..2 the short keys; 3 a key of 65500 bytes — a legal AMF0 string,
/// but the status description the server builds from it ("Successfully started … on stream key
/// <key>") no longer fits, so accepting such a request is refused with an error.
pub fn key_str(k: u8) -> String {
    if k % 4 == 3 {
        "K".repeat(65_500)
    } else {
        KEYS[k as usize % 4 % KEYS.len()].to_string()
    }
}
pub const MODES: &[&str] = &["live", "record", "append", "LIVE", "bogus"];

#[derive(Clone, Debug, Serialize, Deserialize, PartialEq)]
pub enum StreamRef {
    /// the i-th stream id ever created (mapped monotonically into the list; stream 1 if none)
    Created(u16),
    Zero,
    /// an id that was never created
    Unknown(u8),
}

#[derive(Clone, Debug, Serialize, Deserialize, PartialEq)]
pub enum ReqRef {
    /// an outstanding request (index mapped monotonically; falls back to Never when none)
    Outstanding(u16),
    /// an id that was already accepted or rejected (falls back to Never when none)
    Used(u16),
    /// an id never issued
    Never(u16),
    /// the k-th id above the largest request id issued so far (the id the next request would
    /// get): an implementation that registers a request it did not surface would honour it
    Next(u8),
}

/// The transaction id a createStream op carries: mostly small integers, but "the caller's
/// transaction id" is any AMF0 number, so 0 (by convention "no reply expected" for other
/// commands), large, fractional and negative ones occur too.
/// Long histories in which many surfaced requests wait for the application at the same time (a
/// table of outstanding requests with a small capacity would lose some): connect, accept, n
/// streams, a publish or play on each, and only then the decisions, oldest or newest first.
pub fn many_undecided() -> BoxedStrategy<Case> {
    (
        gen::pick(&[15u32, 16, 17, 31, 32, 33, 34, 40, 64, 65, 130, 300]),
        any::<u8>(),
        proptest::collection::vec(any::<u8>(), 0..40),
        gen::pick(&[128u32, 4096, 1, 7]),
    )
        .prop_map(|(n, shape, tail, chunk_size)| {
            let at = |j: u32| StreamRef::Created((((j as u64) * 65_536 + 32_768) / n as u64) as u16);
            let mut ops: Vec<(SOp, u16)> = vec![(SOp::Connect { app: 0, slash: false, enc: 0, tid: 1 }, 0), (SOp::Accept { req: ReqRef::Outstanding(0) }, 0)];
            for j in 0..n {
                ops.push((SOp::CreateStream { tid: 2 + (j % 7) as u8 }, 0));
            }
            for j in 0..n {
                if (shape as u32 + j) % 3 == 0 {
                    ops.push((SOp::Play { stream: at(j), key: (j % 3) as u8, nargs: 1, start: 0, duration: 0, reset: false }, 0));
                } else {
                    ops.push((SOp::Publish { stream: at(j), key: (j % 3) as u8, mode: (j % 3) as u8 }, 0));
                }
            }
            for j in 0..n {
                let req = if shape & 1 == 0 { ReqRef::Outstanding(0) } else { ReqRef::Outstanding(65_535) };
                if (shape >> 1) & 3 == 0 && j % 4 == 3 {
                    ops.push((SOp::Reject { req }, 0));
                } else {
                    ops.push((SOp::Accept { req }, 0));
                }
            }
            for (k, t) in tail.iter().enumerate() {
                let j = (*t as u32 * 7 + k as u32) % n;
                match t % 4 {
                    0 => ops.push((SOp::Audio { stream: at(j), ts: k as u32 * 20, len: 3 }, 0)),
                    1 => ops.push((SOp::SetDataFrame { stream: at(j), meta: fixed_meta((t % 3) as u32) }, 0)),
                    2 => ops.push((SOp::CloseStream { stream: at(j) }, 0)),
                    _ => ops.push((SOp::Video { stream: at(j), ts: k as u32 * 20, len: 0 }, 0)),
                }
            }
            Case { ops, chunk_size }
        })
        .boxed()
}

pub fn fixed_meta(k: u32) -> Meta {
    Meta {
        width: Some(1280 + k),
        height: Some(720),
        vcodec: Some(7),
        frame_rate: Some(0x41F0_0000),
        vbitrate: Some(2500),
        acodec: Some(10),
        abitrate: Some(128),
        sample_rate: Some(44_100),
        channels: Some(2),
        stereo: Some(true),
        encoder: Some("enc".to_string()),
    }
}

pub fn create_tid(t: u8) -> f64 {
    match t {
        10 => 255.0,
        11 => 65_536.0,
        12 => 4_294_967_296.0,
        13 => 9_007_199_254_740_992.0,
        14 => 0.5,
        15 => -1.0,
        x => x as f64,
    }
}

#[derive(Clone, Debug, Serialize, Deserialize, PartialEq)]
pub enum SOp {
    Connect { app: u8, slash: bool, enc: u8, tid: u8 },
    CreateStream { tid: u8 },
    Publish { stream: StreamRef, key: u8, mode: u8 },
    Play { stream: StreamRef, key: u8, nargs: u8, start: i8, duration: i8, reset: bool },
    CloseStream { stream: StreamRef },
    DeleteStream { stream: StreamRef },
    Audio { stream: StreamRef, ts: u32, len: u16 },
    Video { stream: StreamRef, ts: u32, len: u16 },
    SetDataFrame { stream: StreamRef, meta: Meta },
    Ping { ts: u32 },
    UnknownCommand { k: u8 },
    /// malformed argument lists: 0 publish without args, 1 publish with numbers, 2 play without
    /// args, 3 play with a number key, 4 connect without app, 5 connect with non-object,
    /// 6 closeStream without args, 7 deleteStream with a string, 8 @setDataFrame alone,
    /// 9 @setDataFrame + onMetaData without object, 10 empty data message
    Malformed { kind: u8, stream: StreamRef },
    PeerChunkSize(u32),
    Accept { req: ReqRef },
    Reject { req: ReqRef },
    SendMedia { stream: StreamRef, kind: u8, len: u16, ts: u32, drop: bool },
    FinishPlaying { stream: StreamRef },
}

#[derive(Clone, Debug, Serialize, Deserialize)]
pub struct Case {
    /// (operation, cut seed for the delivery of its bytes)
    pub ops: Vec<(SOp, u16)>,
    pub chunk_size: u32,
}

// ------------------------------------------------------------------------------------------------
// concrete operations (all references resolved) and their execution

#[derive(Clone, Debug)]
pub enum Concrete {
    Peer { bytes: Vec<u8>, cut: u16 },
    Accept(u32),
    Reject(u32),
    SendMedia { stream_id: u32, kind: u8, len: u16, ts: u32, drop: bool },
    FinishPlaying(u32),
}

#[derive(Debug, Default)]
pub struct OpObs {
    /// Err text of the call (application calls) or of handle_input
    pub err: Option<String>,
    pub events: Vec<ServerSessionEvent>,
    pub out: Vec<OutMsg>,
}

pub struct Exec {
    pub sess: ServerSession,
    pub outdec: OutDec,
    pub record: Vec<PacketRec>,
    pub tag: Tag,
}

impl Exec {
    pub fn new(chunk_size: u32) -> Result<Exec, String> {
        let mut cfg = ServerSessionConfig::new();
        cfg.chunk_size = chunk_size.clamp(1, 0x7FFF_FFFF);
        // the other configuration values vary with the chunk size (the case stays a function of its
        // data): the onBWDone flag, the announced window / bandwidth, a non-ASCII version string
        cfg.send_on_bw_done_message_on_start = chunk_size % 2 == 0;
        cfg.window_ack_size = [2_500_000u32, 1, 0xFFFF_FFFF, 5000][(chunk_size / 2 % 4) as usize];
        cfg.peer_bandwidth = [2_500_000u32, 0, 0xFFFF_FFFF, 128][(chunk_size / 8 % 4) as usize];
        if chunk_size / 32 % 3 == 1 {
            cfg.fms_version = "FMS/3,0,1,123 \u{2014} \u{441}\u{435}\u{440}\u{432}\u{435}\u{440}".to_string();
        }
        let (sess, init) = ServerSession::new(cfg).map_err(|e| format!("ServerSession::new failed: {:?}", e))?;
        let mut e = Exec { sess, outdec: OutDec::new(), record: Vec::new(), tag: Tag { call: usize::MAX, ..Tag::default() } };
        let mut o = OpObs::default();
        e.absorb(init, &mut o)?;
        Ok(e)
    }

    fn absorb(&mut self, results: Vec<ServerSessionResult>, o: &mut OpObs) -> Result<(), String> {
        let s = split_server(results);
        for (b, d) in s.packets {
            self.rec(&b, d);
            o.out.extend(self.outdec.packet(&b, d)?);
        }
        o.events.extend(s.events);
        Ok(())
    }

    fn rec(&mut self, bytes: &[u8], droppable: bool) {
        self.record.push(PacketRec { bytes: bytes.to_vec(), droppable, asked: self.tag.asked, call: self.tag.call, expect_msid: self.tag.expect_msid, age: self.tag.age });
    }

    /// Err = an outbound packet could not be decoded by the conformant observer
    pub fn run(&mut self, c: &Concrete) -> Result<OpObs, String> {
        let mut o = OpObs::default();
        match c {
            Concrete::Peer { bytes, cut } => {
                let at = ((*cut as usize) * (bytes.len() + 1)) >> 16;
                let pieces: Vec<&[u8]> = if at == 0 || at >= bytes.len() { vec![&bytes[..]] } else { vec![&bytes[..at], &bytes[at..]] };
                for p in pieces {
                    match self.sess.handle_input(p) {
                        Ok(r) => self.absorb(r, &mut o)?,
                        Err(e) => {
                            o.err = Some(format!("{:?}", e));
                            // the bytes of this message are consumed; feed the rest as well so the
                            // deserializer stays in step
                        }
                    }
                }
            }
            Concrete::Accept(id) => match self.sess.accept_request(*id) {
                Ok(r) => self.absorb(r, &mut o)?,
                Err(e) => o.err = Some(format!("{:?}", e)),
            },
            Concrete::Reject(id) => match self.sess.reject_request(*id, "NetConnection.Connect.Rejected", "no") {
                Ok(r) => self.absorb(r, &mut o)?,
                Err(e) => o.err = Some(format!("{:?}", e)),
            },
            Concrete::SendMedia { stream_id, kind, len, ts, drop } => {
                let data = Bytes::from(fill_bytes(*len as u32, *len as usize));
                let r = match kind % 3 {
                    0 => self.sess.send_audio_data(*stream_id, data, RtmpTimestamp::new(*ts), *drop),
                    1 => self.sess.send_video_data(*stream_id, data, RtmpTimestamp::new(*ts), *drop),
                    _ => {
                        let mut m = StreamMetadata::new();
                        m.video_width = Some(*len as u32);
                        self.sess.send_metadata(*stream_id, &m)
                    }
                };
                match r {
                    Ok(p) => {
                        self.rec(&p.bytes, p.can_be_dropped);
                        o.out.extend(self.outdec.packet(&p.bytes, p.can_be_dropped)?)
                    }
                    Err(e) => o.err = Some(format!("{:?}", e)),
                }
            }
            Concrete::FinishPlaying(id) => match self.sess.finish_playing(*id) {
                Ok(p) => {
                    self.rec(&p.bytes, p.can_be_dropped);
                    o.out.extend(self.outdec.packet(&p.bytes, p.can_be_dropped)?)
                }
                Err(e) => o.err = Some(format!("{:?}", e)),
            },
        }
        Ok(o)
    }
}

/// Normal form of an observation for twin-run comparison: session-generated timestamps masked,
/// AMF0 objects sorted by name.
pub fn norm_obs(o: &OpObs) -> String {
    let mut s = String::new();
    s.push_str(&format!("err={} ", o.err.is_some()));
    for e in &o.events {
        s.push_str(&format!("E:{};", fmt_server_event(e)));
    }
    for m in &o.out {
        let body = match &m.rm {
            Ok(RM::Command(n, t, ob, a)) => format!("cmd {} {} {:?} {:?}", n.build(), f64::from_bits(*t), ra::from_lib(&ra::to_lib(ob)), a.iter().map(|x| ra::from_lib(&ra::to_lib(x))).collect::<Vec<_>>()),
            Ok(RM::Data(vs)) => format!("data {:?}", vs.iter().map(|x| ra::from_lib(&ra::to_lib(x))).collect::<Vec<_>>()),
            Ok(RM::Ack(_)) => continue,
            Ok(other) => format!("{:?}", other),
            Err(e) => format!("unparsable {}", e),
        };
        let ts = if matches!(m.dec.msg.type_id, 8 | 9) { m.dec.msg.ts.to_string() } else { "_".to_string() };
        s.push_str(&format!("O:t{} s{} ts{} d{} {};", m.dec.msg.type_id, m.dec.msg.msid, ts, m.droppable, body));
    }
    s
}

// ------------------------------------------------------------------------------------------------
// ModelServer

#[derive(Clone, Debug, PartialEq)]
enum St {
    Created,
    Publishing(String),
    Playing(String),
    /// the statement does not say what the stream is now (play accepted on a publishing stream or
    /// vice versa); nothing is judged until it is closed or deleted
    Unspecified,
    Completed,
}

#[derive(Clone, Debug)]
enum Req {
    Connect(String),
    Publish(u32, String),
    Play(u32, String),
}

#[derive(Default)]
struct Model {
    connected: bool,
    apps_accepted: BTreeSet<String>,
    app: Option<String>,
    outstanding: BTreeMap<u32, Req>,
    used: Vec<u32>,
    seen_request_ids: BTreeSet<u32>,
    issued_streams: Vec<u32>,
    streams: BTreeMap<u32, St>,
}

impl Model {
    fn stream_id(&self, r: &StreamRef) -> u32 {
        match r {
            StreamRef::Created(i) => {
                if self.issued_streams.is_empty() {
                    1
                } else {
                    self.issued_streams[((*i as usize) * self.issued_streams.len()) >> 16]
                }
            }
            StreamRef::Zero => 0,
            StreamRef::Unknown(k) => 1000 + *k as u32,
        }
    }

    fn request_id(&self, r: &ReqRef) -> (u32, &'static str) {
        match r {
            ReqRef::Outstanding(i) if !self.outstanding.is_empty() => {
                let ids: Vec<&u32> = self.outstanding.keys().collect();
                (*ids[((*i as usize) * ids.len()) >> 16], "outstanding")
            }
            ReqRef::Used(i) if !self.used.is_empty() => (self.used[((*i as usize) * self.used.len()) >> 16], "used"),
            ReqRef::Next(k) => {
                let base = self.seen_request_ids.iter().next_back().map(|x| x + 1).unwrap_or(0);
                (base + (*k as u32 % 3), "never-issued")
            }
            ReqRef::Never(k) | ReqRef::Outstanding(k) | ReqRef::Used(k) => {
                let mut id = 5000 + *k as u32;
                while self.seen_request_ids.contains(&id) {
                    id += 1;
                }
                (id, "never-issued")
            }
        }
    }
}

fn has_error_command(o: &OpObs) -> bool {
    o.out.iter().any(|m| matches!(&m.rm, Ok(RM::Command(n, _, _, _)) if n.build() == "_error"))
}

fn request_events(o: &OpObs) -> Vec<u32> {
    o.events
        .iter()
        .filter_map(|e| match e {
            ServerSessionEvent::ConnectionRequested { request_id, .. } => Some(*request_id),
            ServerSessionEvent::PublishStreamRequested { request_id, .. } => Some(*request_id),
            ServerSessionEvent::PlayStreamRequested { request_id, .. } => Some(*request_id),
            ServerSessionEvent::ReleaseStreamRequested { request_id, .. } => Some(*request_id),
            _ => None,
        })
        .collect()
}

fn media_or_finished_events(o: &OpObs) -> Vec<String> {
    o.events
        .iter()
        .filter(|e| {
            matches!(
                e,
                ServerSessionEvent::AudioDataReceived { .. }
                    | ServerSessionEvent::VideoDataReceived { .. }
                    | ServerSessionEvent::StreamMetadataChanged { .. }
                    | ServerSessionEvent::PublishStreamFinished { .. }
                    | ServerSessionEvent::PlayStreamFinished { .. }
            )
        })
        .map(|e| truncate(&format!("{:?}", e), 200))
        .collect()
}

struct Judge<'a> {
    obs: &'a mut Obs,
    judged: u64,
}

pub fn eval(case: &Case) -> Verdict {
    eval_with(case, &own_clock(case.ops.len()), &mut Vec::new())
}

/// The session's age in this property's own sub-checks: a function of the history length, so that
/// most histories run on a session that is NOT brand new (uptime 0 makes "the session's clock" and
/// "zero" coincide) while the case stays a pure function of its data.  C18 owns long uptimes.
pub fn own_clock(n_ops: usize) -> Clock {
    Clock { age0: [0u64, 50, 1234, 70_000, 16_777_300][n_ops % 5], jumps: vec![] }
}

/// Runs and judges a history; `clock` ages the session, `sink` receives every packet returned.
pub fn eval_with(case: &Case, clock: &Clock, sink: &mut Vec<PacketRec>) -> Verdict {
    let mut ex = match Exec::new(case.chunk_size) {
        Ok(e) => e,
        Err(e) => return Verdict::Fail(e),
    };
    let mut age = clock.age0;
    if age > 0 {
        ex.sess.verif_shift_clock(age);
    }
    let v = eval_inner(case, clock, &mut ex, &mut age);
    sink.append(&mut ex.record);
    v
}

fn eval_inner(case: &Case, clock: &Clock, ex: &mut Exec, age: &mut u64) -> Verdict {
    let mut model = Model::default();
    let mut peer = PeerEnc::new();
    let mut peer_ts = 0u32;
    let mut log: Vec<Concrete> = Vec::new();
    let mut ended_by_error = false;
    let mut traces: Vec<String> = Vec::new();
    let mut refused: Vec<usize> = Vec::new();
    let mut obs = Obs::new();
    let mut j = Judge { obs: &mut obs, judged: 0 };
    let mut out_of_order = false;
    let mut forged = false;
    let mut media_on_non_publishing = false;

    for (idx, (op, cut)) in case.ops.iter().enumerate() {
        peer_ts = peer_ts.wrapping_add(7);
        let at = format!("op {} {:?}", idx, op);
        // 1. resolve to a concrete operation
        let concrete = match op {
            SOp::Connect { app, slash, enc, tid } => {
                let mut name = APPS[*app as usize % APPS.len()].to_string();
                if *slash {
                    name.push('/');
                }
                let mut pairs = vec![("app", st(&name)), ("flashVer", st("FMLE/3.0")), ("tcUrl", st("rtmp://h/x"))];
                if *enc % 3 != 0 {
                    pairs.push(("objectEncoding", num(if *enc % 3 == 1 { 0.0 } else { 3.0 })));
                }
                Concrete::Peer { bytes: peer.send(&command("connect", *tid as f64, obj(pairs), vec![]), 0, peer_ts), cut: *cut }
            }
            SOp::CreateStream { tid } => Concrete::Peer { bytes: peer.send(&command("createStream", create_tid(*tid), V::Null, vec![]), 0, peer_ts), cut: *cut },
            SOp::Publish { stream, key, mode } => {
                let sid = model.stream_id(stream);
                Concrete::Peer { bytes: peer.send(&command("publish", 0.0, V::Null, vec![st(&key_str(*key)), st(MODES[*mode as usize % MODES.len()])]), sid, peer_ts), cut: *cut }
            }
            SOp::Play { stream, key, nargs, start, duration, reset } => {
                let sid = model.stream_id(stream);
                let mut args = vec![st(&key_str(*key))];
                let extra = [num(*start as f64), num(*duration as f64), V::Bool(*reset as u8)];
                for a in extra.iter().take(*nargs as usize % 4) {
                    args.push(a.clone());
                }
                Concrete::Peer { bytes: peer.send(&command("play", 0.0, V::Null, args), sid, peer_ts), cut: *cut }
            }
            SOp::CloseStream { stream } => {
                let sid = model.stream_id(stream);
                Concrete::Peer { bytes: peer.send(&command("closeStream", 0.0, V::Null, vec![num(sid as f64)]), sid, peer_ts), cut: *cut }
            }
            SOp::DeleteStream { stream } => {
                let sid = model.stream_id(stream);
                Concrete::Peer { bytes: peer.send(&command("deleteStream", 0.0, V::Null, vec![num(sid as f64)]), 0, peer_ts), cut: *cut }
            }
            SOp::Audio { stream, ts, len } => Concrete::Peer { bytes: peer.send(&RM::Audio(fill_bytes(*ts, *len as usize)), model.stream_id(stream), *ts), cut: *cut },
            SOp::Video { stream, ts, len } => Concrete::Peer { bytes: peer.send(&RM::Video(fill_bytes(*ts, *len as usize)), model.stream_id(stream), *ts), cut: *cut },
            SOp::SetDataFrame { stream, meta } => {
                let lib = meta.to_lib();
                let mut pairs: Vec<(&str, V)> = Vec::new();
                if let Some(x) = lib.video_width { pairs.push(("width", num(x as f64))); }
                if let Some(x) = lib.video_height { pairs.push(("height", num(x as f64))); }
                if let Some(x) = lib.video_codec_id { pairs.push(("videocodecid", num(x as f64))); }
                if let Some(x) = lib.video_frame_rate { pairs.push(("framerate", num(x as f64))); }
                if let Some(x) = lib.video_bitrate_kbps { pairs.push(("videodatarate", num(x as f64))); }
                if let Some(x) = lib.audio_codec_id { pairs.push(("audiocodecid", num(x as f64))); }
                if let Some(x) = lib.audio_bitrate_kbps { pairs.push(("audiodatarate", num(x as f64))); }
                if let Some(x) = lib.audio_sample_rate { pairs.push(("audiosamplerate", num(x as f64))); }
                if let Some(x) = lib.audio_channels { pairs.push(("audiochannels", num(x as f64))); }
                if let Some(x) = lib.audio_is_stereo { pairs.push(("stereo", V::Bool(x as u8))); }
                if let Some(x) = &lib.encoder { pairs.push(("encoder", st(x))); }
                pairs.push(("unrelated", st("ignored")));
                Concrete::Peer { bytes: peer.send(&RM::Data(vec![st("@setDataFrame"), st("onMetaData"), obj(pairs)]), model.stream_id(stream), peer_ts), cut: *cut }
            }
            SOp::Ping { ts } => Concrete::Peer { bytes: peer.send(&RM::UserControl(6, vec![*ts]), 0, peer_ts), cut: *cut },
            SOp::UnknownCommand { k } => Concrete::Peer { bytes: peer.send(&command(["FCPublish", "releaseStream", "getStreamLength", "_checkbw", "FCUnpublish"][*k as usize % 5], *k as f64, V::Null, vec![st("x")]), 0, peer_ts), cut: *cut },
            SOp::Malformed { kind, stream } => {
                let sid = model.stream_id(stream);
                let rm = match kind % 11 {
                    0 => command("publish", 0.0, V::Null, vec![]),
                    1 => command("publish", 0.0, V::Null, vec![num(1.0), num(2.0)]),
                    2 => command("play", 0.0, V::Null, vec![]),
                    3 => command("play", 0.0, V::Null, vec![num(5.0)]),
                    4 => command("connect", 1.0, obj(vec![("flashVer", st("x"))]), vec![]),
                    5 => command("connect", 1.0, V::Null, vec![]),
                    6 => command("closeStream", 0.0, V::Null, vec![]),
                    7 => command("deleteStream", 0.0, V::Null, vec![st("1")]),
                    8 => RM::Data(vec![st("@setDataFrame")]),
                    9 => RM::Data(vec![st("@setDataFrame"), st("onMetaData")]),
                    _ => RM::Data(vec![]),
                };
                Concrete::Peer { bytes: peer.send(&rm, sid, peer_ts), cut: *cut }
            }
            SOp::PeerChunkSize(n) => Concrete::Peer { bytes: peer.set_chunk_size((*n).clamp(1, 0x7FFF_FFFF), peer_ts), cut: *cut },
            SOp::Accept { req } => Concrete::Accept(model.request_id(req).0),
            SOp::Reject { req } => Concrete::Reject(model.request_id(req).0),
            SOp::SendMedia { stream, kind, len, ts, drop } => Concrete::SendMedia { stream_id: model.stream_id(stream), kind: *kind, len: *len, ts: *ts, drop: *drop },
            SOp::FinishPlaying { stream } => Concrete::FinishPlaying(model.stream_id(stream)),
        };
        // 2. execute
        let shift = clock.shift_before(idx, case.ops.len());
        if shift > 0 {
            ex.sess.verif_shift_clock(shift);
            *age += shift;
        }
        ex.tag = Tag {
            call: idx,
            asked: match &concrete {
                Concrete::SendMedia { kind, drop, .. } if kind % 3 != 2 => Some(*drop),
                _ => None,
            },
            expect_msid: match &concrete {
                Concrete::SendMedia { stream_id, .. } => Some(*stream_id),
                Concrete::FinishPlaying(stream_id) => Some(*stream_id),
                Concrete::Accept(id) | Concrete::Reject(id) => match model.outstanding.get(id) {
                    Some(Req::Publish(s, _)) | Some(Req::Play(s, _)) => Some(*s),
                    _ => None,
                },
                _ => None,
            },
            age: *age,
        };
        let o = match ex.run(&concrete) {
            Ok(o) => o,
            Err(e) => vfail!("{}: what the session emitted cannot be decoded by a conformant peer: {}", at, e),
        };
        // 3. judge against the model, then let the model follow
        // global: request ids are fresh
        for id in request_events(&o) {
            vensure!(model.seen_request_ids.insert(id), "{}: request event carries id {} which was issued before", at, id);
        }
        let unexpected_media = |o: &OpObs| -> Option<String> {
            let m = media_or_finished_events(o);
            if m.is_empty() { None } else { Some(format!("{:?}", m)) }
        };
        match op {
            SOp::Connect { app, .. } => {
                let want_app = APPS[*app as usize % APPS.len()].to_string();
                let evs: Vec<(u32, String)> = o.events.iter().filter_map(|e| if let ServerSessionEvent::ConnectionRequested { request_id, app_name } = e { Some((*request_id, app_name.clone())) } else { None }).collect();
                if !model.connected && model.outstanding.is_empty() {
                    // the first, well-formed connect must be surfaced
                    vensure!(evs.len() == 1, "{}: a well-formed connect raised {} ConnectionRequested events", at, evs.len());
                    j.judged += 1;
                }
                for (id, name) in evs {
                    vensure!(name == want_app, "{}: ConnectionRequested carries app {:?}, the peer asked for {:?} (one trailing '/' stripped)", at, name, want_app);
                    model.outstanding.insert(id, Req::Connect(name));
                }
                if let Some(m) = unexpected_media(&o) {
                    vfail!("{}: connect raised {}", at, m);
                }
            }
            SOp::CreateStream { tid } => {
                let results: Vec<(u32, f64, Option<f64>)> = o
                    .out
                    .iter()
                    .filter_map(|m| match &m.rm {
                        Ok(RM::Command(n, t, _, a)) if n.build() == "_result" => Some((m.dec.msg.msid, f64::from_bits(*t), a.iter().find_map(as_num))),
                        _ => None,
                    })
                    .collect();
                if model.connected {
                    vensure!(results.len() == 1, "{}: createStream answered with {} _result commands", at, results.len());
                    j.judged += 1;
                }
                for (msid, t, sid) in results {
                    vensure!(msid == 0, "{}: createStream result sent on message stream {}", at, msid);
                    vensure!(t.to_bits() == create_tid(*tid).to_bits(), "{}: createStream result carries transaction id {} instead of {}", at, t, create_tid(*tid));
                    match sid {
                        Some(s) if s >= 0.0 && s.fract() == 0.0 => {
                            let s = s as u32;
                            vensure!(!model.issued_streams.contains(&s), "{}: created stream id {} was issued before", at, s);
                            vensure!(s != 0, "{}: created stream id 0 (the control stream)", at);
                            model.issued_streams.push(s);
                            model.streams.insert(s, St::Created);
                        }
                        other => vfail!("{}: createStream result carries no usable stream id ({:?})", at, other),
                    }
                }
                if let Some(m) = unexpected_media(&o) {
                    vfail!("{}: createStream raised {}", at, m);
                }
            }
            SOp::Publish { stream, key, mode } | SOp::Play { stream, key, nargs: mode, .. } => {
                let is_publish = matches!(op, SOp::Publish { .. });
                let sid = model.stream_id(stream);
                let want_key = key_str(*key);
                let want_key = want_key.as_str();
                let evs: Vec<(u32, String, String, u32)> = o
                    .events
                    .iter()
                    .filter_map(|e| match e {
                        ServerSessionEvent::PublishStreamRequested { request_id, app_name, stream_key, .. } if is_publish => Some((*request_id, app_name.clone(), stream_key.clone(), sid)),
                        ServerSessionEvent::PlayStreamRequested { request_id, app_name, stream_key, stream_id, .. } if !is_publish => Some((*request_id, app_name.clone(), stream_key.clone(), *stream_id)),
                        _ => None,
                    })
                    .collect();
                let wrong_kind = o.events.iter().any(|e| matches!(e, ServerSessionEvent::PublishStreamRequested { .. }) && !is_publish || matches!(e, ServerSessionEvent::PlayStreamRequested { .. }) && is_publish);
                vensure!(!wrong_kind, "{}: request surfaced as the wrong kind", at);
                if !model.connected {
                    out_of_order = true;
                    vensure!(evs.is_empty(), "{}: request surfaced although no connection request was accepted", at);
                    vensure!(has_error_command(&o), "{}: publish/play before connect must be answered with an _error command", at);
                    j.judged += 1;
                } else {
                    let well_formed = !is_publish || MODES[*mode as usize % MODES.len()] != "bogus";
                    let exists = matches!(model.streams.get(&sid), Some(s) if *s != St::Unspecified);
                    if well_formed && exists {
                        vensure!(evs.len() == 1, "{}: a well-formed request on an existing stream raised {} request events", at, evs.len());
                        j.judged += 1;
                    } else {
                        out_of_order = true;
                    }
                    for (id, app, k, ev_sid) in evs {
                        if model.apps_accepted.len() == 1 {
                            vensure!(Some(&app) == model.app.as_ref(), "{}: request tagged with app {:?}, accepted app is {:?}", at, app, model.app);
                        }
                        vensure!(k == want_key, "{}: request carries key {:?}, the peer sent {:?}", at, k, want_key);
                        vensure!(ev_sid == sid, "{}: play request names stream {} but arrived on {}", at, ev_sid, sid);
                        model.outstanding.insert(id, if is_publish { Req::Publish(sid, k) } else { Req::Play(sid, k) });
                    }
                }
                if let Some(m) = unexpected_media(&o) {
                    vfail!("{}: publish/play command raised {}", at, m);
                }
            }
            SOp::Accept { req } | SOp::Reject { req } => {
                let accept = matches!(op, SOp::Accept { .. });
                let (id, kind) = model.request_id(req);
                if kind != "outstanding" {
                    forged = true;
                    vensure!(o.err.is_some(), "{}: {} of {} id {} must be refused with an error", at, if accept { "accept" } else { "reject" }, kind, id);
                    vensure!(o.events.is_empty() && o.out.is_empty(), "{}: refused call produced results", at);
                    refused.push(idx);
                    j.judged += 1;
                } else {
                    let r = model.outstanding.remove(&id).unwrap();
                    model.used.push(id);
                    let stream_gone = match &r {
                        Req::Publish(s, _) | Req::Play(s, _) => !model.streams.contains_key(s),
                        Req::Connect(_) => false,
                    };
                    // a key so long that the status description cannot be expressed may be refused
                    let unexpressible = accept && matches!(&r, Req::Publish(_, k) | Req::Play(_, k) if k.len() > 65_400);
                    if !stream_gone && !unexpressible {
                        vensure!(o.err.is_none(), "{}: {} of the outstanding request {} failed: {:?}", at, if accept { "accept" } else { "reject" }, id, o.err);
                        j.judged += 1;
                    }
                    j.obs.class_if(unexpressible && o.err.is_some(), "accept-refused-for-unexpressible-key");
                    if accept && o.err.is_none() {
                        match r {
                            Req::Connect(app) => {
                                model.connected = true;
                                model.apps_accepted.insert(app.clone());
                                model.app = Some(app);
                            }
                            Req::Publish(s, k) => {
                                if let Some(stt) = model.streams.get_mut(&s) {
                                    *stt = match stt {
                                        St::Playing(_) | St::Unspecified => St::Unspecified,
                                        _ => St::Publishing(k),
                                    };
                                } else {
                                    // accepted on a stream the model does not know: not judged
                                    model.streams.insert(s, St::Unspecified);
                                }
                            }
                            Req::Play(s, k) => {
                                if let Some(stt) = model.streams.get_mut(&s) {
                                    *stt = match stt {
                                        St::Publishing(_) | St::Unspecified => St::Unspecified,
                                        _ => St::Playing(k),
                                    };
                                } else {
                                    model.streams.insert(s, St::Unspecified);
                                }
                            }
                        }
                    }
                    if !accept && o.err.is_none() {
                        vensure!(has_error_command(&o), "{}: a rejected request must be answered with an _error command", at);
                    }
                }
                if let Some(m) = unexpected_media(&o) {
                    vfail!("{}: accept/reject raised {}", at, m);
                }
            }
            SOp::Audio { stream, ts, len } | SOp::Video { stream, ts, len } => {
                let is_audio = matches!(op, SOp::Audio { .. });
                let sid = model.stream_id(stream);
                let payload = fill_bytes(*ts, *len as usize);
                let got: Vec<(bool, String, String, Vec<u8>, u32)> = o
                    .events
                    .iter()
                    .filter_map(|e| match e {
                        ServerSessionEvent::AudioDataReceived { app_name, stream_key, data, timestamp } => Some((true, app_name.clone(), stream_key.clone(), data.to_vec(), timestamp.value)),
                        ServerSessionEvent::VideoDataReceived { app_name, stream_key, data, timestamp } => Some((false, app_name.clone(), stream_key.clone(), data.to_vec(), timestamp.value)),
                        _ => None,
                    })
                    .collect();
                match model.streams.get(&sid) {
                    Some(St::Unspecified) => {}
                    Some(St::Publishing(key)) if model.connected => {
                        vensure!(got.len() == 1, "{}: media on publishing stream {} raised {} media events", at, sid, got.len());
                        let (a, app, k, d, t) = &got[0];
                        vensure!(*a == is_audio && k == key && d == &payload && *t == *ts, "{}: media event differs: audio={} key={:?} len={} ts={} (expected audio={} key={:?} len={} ts={})", at, a, k, d.len(), t, is_audio, key, payload.len(), ts);
                        if model.apps_accepted.len() == 1 {
                            vensure!(Some(app) == model.app.as_ref(), "{}: media tagged with app {:?}, accepted app is {:?}", at, app, model.app);
                        }
                        j.obs.class("media-raised-on-publishing-stream");
                        j.judged += 1;
                    }
                    _ => {
                        media_on_non_publishing = true;
                        vensure!(got.is_empty(), "{}: media event raised for stream {} which has no accepted publish request (model state {:?})", at, sid, model.streams.get(&sid));
                        j.judged += 1;
                    }
                }
                let fin = o.events.iter().any(|e| matches!(e, ServerSessionEvent::PublishStreamFinished { .. } | ServerSessionEvent::PlayStreamFinished { .. } | ServerSessionEvent::StreamMetadataChanged { .. }));
                vensure!(!fin, "{}: media message raised a finished/metadata event", at);
            }
            SOp::SetDataFrame { stream, meta } => {
                let sid = model.stream_id(stream);
                let got: Vec<(String, String, StreamMetadata)> = o
                    .events
                    .iter()
                    .filter_map(|e| match e {
                        ServerSessionEvent::StreamMetadataChanged { app_name, stream_key, metadata } => Some((app_name.clone(), stream_key.clone(), metadata.clone())),
                        _ => None,
                    })
                    .collect();
                match model.streams.get(&sid) {
                    Some(St::Unspecified) => {}
                    Some(St::Publishing(key)) if model.connected => {
                        vensure!(got.len() == 1, "{}: metadata on publishing stream {} raised {} metadata events", at, sid, got.len());
                        vensure!(&got[0].1 == key && meta_eq(&got[0].2, &meta.to_lib()), "{}: metadata event differs: key {:?} {:?}, expected key {:?} {:?}", at, got[0].1, got[0].2, key, meta.to_lib());
                        if model.apps_accepted.len() == 1 {
                            vensure!(Some(&got[0].0) == model.app.as_ref(), "{}: metadata tagged with app {:?}", at, got[0].0);
                        }
                        j.judged += 1;
                    }
                    _ => {
                        media_on_non_publishing = true;
                        vensure!(got.is_empty(), "{}: metadata event raised for stream {} which has no accepted publish request", at, sid);
                        j.judged += 1;
                    }
                }
                let other = o.events.iter().any(|e| matches!(e, ServerSessionEvent::PublishStreamFinished { .. } | ServerSessionEvent::PlayStreamFinished { .. } | ServerSessionEvent::AudioDataReceived { .. } | ServerSessionEvent::VideoDataReceived { .. }));
                vensure!(!other, "{}: metadata message raised a media/finished event", at);
            }
            SOp::CloseStream { stream } | SOp::DeleteStream { stream } => {
                let delete = matches!(op, SOp::DeleteStream { .. });
                let sid = model.stream_id(stream);
                let fins: Vec<(bool, String, String)> = o
                    .events
                    .iter()
                    .filter_map(|e| match e {
                        ServerSessionEvent::PublishStreamFinished { app_name, stream_key } => Some((true, app_name.clone(), stream_key.clone())),
                        ServerSessionEvent::PlayStreamFinished { app_name, stream_key } => Some((false, app_name.clone(), stream_key.clone())),
                        _ => None,
                    })
                    .collect();
                match model.streams.get(&sid).cloned() {
                    Some(St::Unspecified) | Some(St::Completed) => {
                        vensure!(fins.len() <= 1, "{}: {} finished events for one close/delete", at, fins.len());
                    }
                    Some(St::Publishing(key)) if model.connected => {
                        j.obs.class("publishing-stream-closed-or-deleted");
                        vensure!(fins.len() == 1 && fins[0].0 && fins[0].2 == key, "{}: closing publishing stream {} (key {:?}) raised {:?}", at, sid, key, fins);
                        if model.apps_accepted.len() == 1 {
                            vensure!(Some(&fins[0].1) == model.app.as_ref(), "{}: finished event tagged with app {:?}", at, fins[0].1);
                        }
                        j.judged += 1;
                    }
                    Some(St::Playing(key)) if model.connected => {
                        j.obs.class("playing-stream-closed-or-deleted");
                        vensure!(fins.len() == 1 && !fins[0].0 && fins[0].2 == key, "{}: closing playing stream {} (key {:?}) raised {:?}", at, sid, key, fins);
                        j.judged += 1;
                    }
                    _ => {
                        vensure!(fins.is_empty(), "{}: closing stream {} which is neither publishing nor playing raised {:?}", at, sid, fins);
                        j.judged += 1;
                    }
                }
                let media = o.events.iter().any(|e| matches!(e, ServerSessionEvent::AudioDataReceived { .. } | ServerSessionEvent::VideoDataReceived { .. } | ServerSessionEvent::StreamMetadataChanged { .. }));
                vensure!(!media, "{}: close/delete raised a media event", at);
                if model.connected {
                    if delete {
                        model.streams.remove(&sid);
                    } else if let Some(s) = model.streams.get_mut(&sid) {
                        *s = St::Created;
                    }
                } else if model.streams.get(&sid).map(|s| *s != St::Created).unwrap_or(false) {
                    // cannot happen: nothing can be accepted on a stream before connect
                }
                if !model.connected && model.streams.contains_key(&sid) && delete {
                    // the statement is silent on deleteStream before connect: whether the (idle)
                    // stream still exists is unknown, so nothing about it is judged from here on
                    model.streams.insert(sid, St::Unspecified);
                }
            }
            SOp::Ping { ts } => {
                let pongs: Vec<Vec<u32>> = o.out.iter().filter_map(|m| match &m.rm { Ok(RM::UserControl(7, f)) => Some(f.clone()), _ => None }).collect();
                vensure!(pongs.len() == 1 && pongs[0] == vec![*ts], "{}: ping request must be answered by exactly one ping response with timestamp {}, saw {:?}", at, ts, pongs);
                j.judged += 1;
                if let Some(m) = unexpected_media(&o) {
                    vfail!("{}: ping raised {}", at, m);
                }
            }
            SOp::FinishPlaying { stream } => {
                let sid = model.stream_id(stream);
                if o.err.is_none() {
                    if let Some(s) = model.streams.get_mut(&sid) {
                        *s = match s { St::Playing(_) => St::Completed, _ => St::Unspecified };
                    }
                }
                if let Some(m) = unexpected_media(&o) {
                    vfail!("{}: finish_playing raised {}", at, m);
                }
            }
            SOp::Malformed { kind, .. } => {
                // follow: a malformed connect / publish / play may still surface (not judged), keep ids in sync
                for e in &o.events {
                    match e {
                        ServerSessionEvent::ConnectionRequested { request_id, app_name } => { model.outstanding.insert(*request_id, Req::Connect(app_name.clone())); }
                        ServerSessionEvent::PublishStreamRequested { request_id, stream_key, .. } => { model.outstanding.insert(*request_id, Req::Publish(model.stream_id(&StreamRef::Zero), stream_key.clone())); }
                        ServerSessionEvent::PlayStreamRequested { request_id, stream_key, stream_id, .. } => { model.outstanding.insert(*request_id, Req::Play(*stream_id, stream_key.clone())); }
                        _ => {}
                    }
                }
                if matches!(kind % 11, 0 | 1 | 2 | 3) && !model.connected {
                    // still "publish/play before connect": never surfaced
                    vensure!(request_events(&o).is_empty(), "{}: malformed publish/play surfaced before connect", at);
                }
                if let Some(m) = unexpected_media(&o) {
                    vfail!("{}: malformed message raised {}", at, m);
                }
            }
            SOp::UnknownCommand { .. } | SOp::PeerChunkSize(_) | SOp::SendMedia { .. } => {
                vensure!(request_events(&o).is_empty(), "{}: raised a request event", at);
                if let Some(m) = unexpected_media(&o) {
                    vfail!("{}: raised {}", at, m);
                }
            }
        }
        traces.push(norm_obs(&o));
        let fatal = o.err.is_some() && matches!(concrete, Concrete::Peer { .. });
        log.push(concrete);
        if fatal {
            // an Err from handle_input is terminal: every caller in the repository closes the
            // connection on it (results gathered earlier in that call are lost by the API), so
            // the history ends here
            ended_by_error = true;
            break;
        }
    }
    // twin run: the same history without the refused calls must produce identical observations
    if !refused.is_empty() {
        let mut twin = match Exec::new(case.chunk_size) {
            Ok(e) => e,
            Err(e) => return Verdict::Fail(e),
        };
        for (idx, c) in log.iter().enumerate() {
            if refused.contains(&idx) {
                continue;
            }
            match twin.run(c) {
                Ok(o) => {
                    let t = norm_obs(&o);
                    vensure!(t == traces[idx], "op {} {:?}: observations differ from a twin session that never made the refused call(s) {:?}: a refused accept/reject had side effects.\n with refused calls: {}\n without:            {}", idx, case.ops[idx].0, refused, truncate(&traces[idx], 600), truncate(&t, 600));
                }
                Err(e) => vfail!("twin run: undecodable output at op {}: {}", idx, e),
            }
        }
        j.judged += 1;
    }
    let judged = j.judged;
    drop(j);
    obs.count("judged-assertions", judged);
    obs.class_if(model.connected, "connect-accepted");
    obs.class_if(out_of_order, "request-out-of-protocol-order");
    obs.class_if(forged, "stale-or-forged-request-id");
    obs.class_if(media_on_non_publishing, "media-on-non-publishing-stream");
    obs.class_if(model.streams.values().any(|s| matches!(s, St::Publishing(_))), "ends-with-publishing-stream");
    obs.class_if(model.streams.values().any(|s| matches!(s, St::Playing(_))), "ends-with-playing-stream");
    obs.class_if(model.streams.values().any(|s| matches!(s, St::Unspecified)), "unspecified-stream-state-reached");
    obs.class_if(!refused.is_empty(), "twin-run-compared");
    obs.class_if(ended_by_error, "history-ended-by-handle-input-error");
    obs.count("operations-executed", log.len() as u64);
    obs.nontrivial = model.connected && (out_of_order || forged || media_on_non_publishing);
    Verdict::Pass(obs)
}

// ------------------------------------------------------------------------------------------------
// generators

fn stream_ref() -> BoxedStrategy<StreamRef> {
    prop_oneof![8 => any::<u16>().prop_map(StreamRef::Created), 1 => Just(StreamRef::Zero), 1 => (0u8..3).prop_map(StreamRef::Unknown)].boxed()
}

fn req_ref() -> BoxedStrategy<ReqRef> {
    prop_oneof![6 => any::<u16>().prop_map(ReqRef::Outstanding), 2 => any::<u16>().prop_map(ReqRef::Used), 1 => (0u16..4).prop_map(ReqRef::Never), 2 => (0u8..3).prop_map(ReqRef::Next)].boxed()
}

pub fn sop() -> BoxedStrategy<SOp> {
    prop_oneof![
        4 => (0u8..3, any::<bool>(), 0u8..3, 1u8..5).prop_map(|(app, slash, enc, tid)| SOp::Connect { app, slash, enc, tid }),
        5 => prop_oneof![5 => 2u8..9, 2 => gen::pick(&[0u8, 1, 10, 11, 12, 13, 14, 15])].prop_map(|tid| SOp::CreateStream { tid }),
        5 => (stream_ref(), prop_oneof![40 => 0u8..3, 1 => Just(3u8)], prop_oneof![8 => 0u8..4, 1 => Just(4u8)]).prop_map(|(stream, key, mode)| SOp::Publish { stream, key, mode }),
        4 => (stream_ref(), prop_oneof![40 => 0u8..3, 1 => Just(3u8)], 0u8..4, -3i8..5, -2i8..5, any::<bool>()).prop_map(|(stream, key, nargs, start, duration, reset)| SOp::Play { stream, key, nargs, start, duration, reset }),
        3 => stream_ref().prop_map(|stream| SOp::CloseStream { stream }),
        3 => stream_ref().prop_map(|stream| SOp::DeleteStream { stream }),
        4 => (stream_ref(), gen::edge_u32(), 0u16..300).prop_map(|(stream, ts, len)| SOp::Audio { stream, ts, len }),
        3 => (stream_ref(), gen::edge_u32(), 0u16..300).prop_map(|(stream, ts, len)| SOp::Video { stream, ts, len }),
        // metadata: a fresh draw, or one of three fixed descriptions (so that EQUAL metadata recurs
        // within a history: twice on one stream, on two streams, before and after a re-publish)
        3 => (stream_ref(), prop_oneof![2 => meta(), 3 => (0u32..3).prop_map(fixed_meta)]).prop_map(|(stream, meta)| SOp::SetDataFrame { stream, meta }),
        2 => gen::edge_u32().prop_map(|ts| SOp::Ping { ts }),
        1 => any::<u8>().prop_map(|k| SOp::UnknownCommand { k }),
        2 => (0u8..11, stream_ref()).prop_map(|(kind, stream)| SOp::Malformed { kind, stream }),
        1 => gen::chunk_size().prop_map(SOp::PeerChunkSize),
        9 => req_ref().prop_map(|req| SOp::Accept { req }),
        2 => req_ref().prop_map(|req| SOp::Reject { req }),
        2 => (stream_ref(), 0u8..3, 0u16..300, gen::edge_u32(), any::<bool>()).prop_map(|(stream, kind, len, ts, drop)| SOp::SendMedia { stream, kind, len, ts, drop }),
        1 => stream_ref().prop_map(|stream| SOp::FinishPlaying { stream }),
    ]
    .boxed()
}

/// histories that start with an accepted connect (so deep states are common) or from scratch
pub fn case_strategy(max_ops: usize) -> BoxedStrategy<Case> {
    let ops = proptest::collection::vec((sop(), prop_oneof![2 => Just(0u16), 1 => any::<u16>()]), 1..max_ops);
    (0u8..4, ops, prop_oneof![Just(4096u32), Just(128u32), 1u32..200])
        .prop_map(|(warm, mut ops, chunk_size)| {
            if warm >= 1 {
                let mut pre = vec![
                    (SOp::Connect { app: 0, slash: false, enc: 0, tid: 1 }, 0u16),
                    (SOp::Accept { req: ReqRef::Outstanding(0) }, 0),
                    (SOp::CreateStream { tid: 2 }, 0),
                ];
                if warm == 2 {
                    pre.push((SOp::Publish { stream: StreamRef::Created(0), key: 1, mode: 0 }, 0));
                    pre.push((SOp::Accept { req: ReqRef::Outstanding(0) }, 0));
                } else if warm == 3 {
                    pre.push((SOp::Play { stream: StreamRef::Created(0), key: 1, nargs: 1, start: -2, duration: 0, reset: false }, 0));
                    pre.push((SOp::Accept { req: ReqRef::Outstanding(0) }, 0));
                }
                pre.append(&mut ops);
                ops = pre;
            }
            Case { ops, chunk_size }
        })
        .boxed()
}

/// the 13-letter alphabet of the bounded-exhaustive enumeration
pub fn alphabet() -> Vec<SOp> {
    let s = StreamRef::Created(0);
    vec![
        SOp::Connect { app: 0, slash: true, enc: 0, tid: 1 },
        SOp::CreateStream { tid: 4 },
        SOp::Publish { stream: s.clone(), key: 0, mode: 0 },
        SOp::Play { stream: s.clone(), key: 1, nargs: 0, start: 0, duration: 0, reset: false },
        SOp::CloseStream { stream: s.clone() },
        SOp::DeleteStream { stream: s.clone() },
        SOp::Audio { stream: s.clone(), ts: 77, len: 5 },
        SOp::SetDataFrame { stream: s, meta: Meta { width: Some(640), height: None, vcodec: None, frame_rate: None, vbitrate: None, acodec: None, abitrate: None, sample_rate: None, channels: None, stereo: Some(true), encoder: None } },
        SOp::Accept { req: ReqRef::Outstanding(0) },
        SOp::Reject { req: ReqRef::Outstanding(0) },
        SOp::Accept { req: ReqRef::Used(65535) },
        SOp::Accept { req: ReqRef::Next(0) },
        SOp::Ping { ts: 0xFFFF_FFFF },
    ]
}

fn exhaustive_cases(ctx: &Ctx) -> Vec<Case> {
    let alpha = alphabet();
    let max_len = if ctx.tier == Tier::Thorough { 5 } else { 4 };
    let mut out = Vec::new();
    let mut cur: Vec<usize> = Vec::new();
    fn rec(alpha: &[SOp], cur: &mut Vec<usize>, max_len: usize, out: &mut Vec<Case>) {
        if !cur.is_empty() {
            out.push(Case { ops: cur.iter().map(|i| (alpha[*i].clone(), 0u16)).collect(), chunk_size: 4096 });
        }
        if cur.len() == max_len {
            return;
        }
        for i in 0..alpha.len() {
            cur.push(i);
            rec(alpha, cur, max_len, out);
            cur.pop();
        }
    }
    rec(&alpha, &mut cur, max_len, &mut out);
    // deep states: the same enumeration (one shorter) behind a connected session with a stream
    let prefix: Vec<(SOp, u16)> = vec![
        (SOp::Connect { app: 0, slash: false, enc: 0, tid: 1 }, 0),
        (SOp::Accept { req: ReqRef::Outstanding(0) }, 0),
        (SOp::CreateStream { tid: 2 }, 0),
    ];
    let mut deep = Vec::new();
    rec(&alpha, &mut Vec::new(), max_len - 1, &mut deep);
    let s = StreamRef::Created(0);
    let publishing: Vec<(SOp, u16)> = vec![(SOp::Publish { stream: s.clone(), key: 2, mode: 1 }, 0), (SOp::Accept { req: ReqRef::Outstanding(0) }, 0)];
    let playing: Vec<(SOp, u16)> = vec![(SOp::Play { stream: s, key: 2, nargs: 3, start: -1, duration: 4, reset: true }, 0), (SOp::Accept { req: ReqRef::Outstanding(0) }, 0)];
    for extra in [Vec::new(), publishing, playing] {
        for c in &deep {
            let mut ops = prefix.clone();
            ops.extend(extra.iter().cloned());
            ops.extend(c.ops.iter().cloned());
            out.push(Case { ops, chunk_size: 4096 });
        }
    }
    out
}

pub fn spec() -> PropSpec {
    PropSpec {
        id: "C09",
        level: "exploration",
        rule: "histories of 1..25 operations over peer messages {connect (3 apps, trailing '/', objectEncoding), createStream, publish (created / zero / unknown stream, 3 short keys and rarely a 65500-byte key, modes live/record/append/LIVE/bogus), play (0..3 optional arguments), closeStream, deleteStream, audio, video, @setDataFrame, ping, unknown commands, 11 kinds of malformed argument lists, peer chunk-size change} and application calls {accept / reject with an outstanding, already-used or never-issued id, send audio/video/metadata, finish_playing}; peer messages are encoded by the reference peer and delivered whole or cut in two. Half of the histories start behind an accepted connect + createStream; sessions are aged 0 / 50 / 1234 / 70000 / 16777300 ms by history length and their configuration (onBWDone flag, window, bandwidth, version string) varies with the chunk size; createStream transaction ids include 0, 2^32, 2^53, 0.5, -1; metadata is a fresh draw or one of three fixed descriptions; one application name and one key are not ASCII. Sub-check 'many-undecided-requests': 15..300 publish / play requests surfaced before any is decided. Plus the bounded-exhaustive enumeration of ALL sequences of length <= 4 (quick) / <= 5 (thorough) over a fixed 13-letter alphabet, from scratch and behind an accepted connect. ModelServer judges clauses (a)-(f) of DESIGN.md C09 and follows the observation where the statement is silent; refused calls are additionally checked by a twin run without them. Non-trivial = the history contains an accepted connect and (a request out of protocol order, or a stale/forged request id, or media on a stream without an accepted publish); distinct = distinct history",
        assumptions: vec![
            "ModelServer is written from the statement; where it is silent (second connect with another app, createStream before connect, play accepted on a publishing stream or vice versa, requests on never-created streams, bogus publish mode, close after finish_playing, malformed messages) nothing is asserted and the model follows the observation",
            "each peer message is delivered in its own call(s) so that an Err (which discards the results of its call) loses only that message's observations",
            "session-generated timestamps and Acknowledgements are masked in the twin-run comparison",
        ],
        checks: vec![
            PropCheck::new("random-histories", |ctx| case_strategy(if ctx.tier == Tier::Thorough { 40 } else { 25 }), 80_000, 2_000_000, eval),
            PropCheck::new("many-undecided-requests", |_| many_undecided(), 150, 4_000, eval),
            EnumCheck::new("bounded-exhaustive", true, exhaustive_cases, eval),
        ],
    }
}
