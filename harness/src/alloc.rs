//! Counting global allocator.  Disabled (one relaxed load per call) unless a worker process turns
//! it on; then it tracks live and peak heap bytes and enforces a hard cap: exceeding the cap
//! writes a marker to stderr and ends the process with exit status 77, which the parent process
//! attributes to the case that was running.

use std::alloc::{GlobalAlloc, Layout, System};
use std::sync::atomic::{AtomicBool, AtomicUsize, Ordering};

pub struct Counting;

static ENABLED: AtomicBool = AtomicBool::new(false);
static LIVE: AtomicUsize = AtomicUsize::new(0);
static PEAK: AtomicUsize = AtomicUsize::new(0);
static CAP: AtomicUsize = AtomicUsize::new(usize::MAX);

pub const CAP_EXIT_CODE: i32 = 77;

fn cap_exceeded() -> ! {
    let msg = b"ALLOC-CAP-EXCEEDED\n";
    unsafe {
        libc::write(2, msg.as_ptr() as *const libc::c_void, msg.len());
        libc::_exit(CAP_EXIT_CODE);
    }
}

#[inline]
fn add(n: usize) {
    let live = LIVE.fetch_add(n, Ordering::Relaxed).wrapping_add(n);
    PEAK.fetch_max(live, Ordering::Relaxed);
    if live > CAP.load(Ordering::Relaxed) && (live as isize) > 0 {
        cap_exceeded();
    }
}

#[inline]
fn sub(n: usize) {
    LIVE.fetch_sub(n, Ordering::Relaxed);
}

unsafe impl GlobalAlloc for Counting {
    unsafe fn alloc(&self, layout: Layout) -> *mut u8 {
        if ENABLED.load(Ordering::Relaxed) {
            // check the cap BEFORE asking the system, so an absurd request ends the process
            // with the marker instead of an allocation-failure abort
            if layout.size() > CAP.load(Ordering::Relaxed) {
                cap_exceeded();
            }
            let p = System.alloc(layout);
            if !p.is_null() {
                add(layout.size());
            }
            p
        } else {
            System.alloc(layout)
        }
    }
    unsafe fn alloc_zeroed(&self, layout: Layout) -> *mut u8 {
        if ENABLED.load(Ordering::Relaxed) {
            if layout.size() > CAP.load(Ordering::Relaxed) {
                cap_exceeded();
            }
            let p = System.alloc_zeroed(layout);
            if !p.is_null() {
                add(layout.size());
            }
            p
        } else {
            System.alloc_zeroed(layout)
        }
    }
    unsafe fn dealloc(&self, ptr: *mut u8, layout: Layout) {
        if ENABLED.load(Ordering::Relaxed) {
            sub(layout.size());
        }
        System.dealloc(ptr, layout)
    }
    unsafe fn realloc(&self, ptr: *mut u8, layout: Layout, new_size: usize) -> *mut u8 {
        if ENABLED.load(Ordering::Relaxed) {
            if new_size > CAP.load(Ordering::Relaxed) {
                cap_exceeded();
            }
            let p = System.realloc(ptr, layout, new_size);
            if !p.is_null() {
                if new_size >= layout.size() {
                    add(new_size - layout.size());
                } else {
                    sub(layout.size() - new_size);
                }
            }
            p
        } else {
            System.realloc(ptr, layout, new_size)
        }
    }
}

/// Turns counting on (worker processes only; must happen before the measured work allocates).
pub fn enable(cap: usize) {
    CAP.store(cap, Ordering::Relaxed);
    LIVE.store(0, Ordering::Relaxed);
    PEAK.store(0, Ordering::Relaxed);
    ENABLED.store(true, Ordering::SeqCst);
}

pub fn enabled() -> bool {
    ENABLED.load(Ordering::Relaxed)
}

pub fn live() -> usize {
    let v = LIVE.load(Ordering::Relaxed);
    if (v as isize) < 0 {
        0
    } else {
        v
    }
}

/// Resets the peak to the current live value and returns that value.
pub fn reset_peak() -> usize {
    let l = live();
    PEAK.store(l, Ordering::Relaxed);
    l
}

pub fn peak() -> usize {
    PEAK.load(Ordering::Relaxed)
}

/// Runs `f` and returns (result, peak live bytes above the level at entry).  Only meaningful
/// inside a worker process (returns 0 when counting is off).
pub fn measure<T>(f: impl FnOnce() -> T) -> (T, usize) {
    if !enabled() {
        return (f(), 0);
    }
    let base = reset_peak();
    let r = f();
    let p = peak();
    (r, p.saturating_sub(base))
}
