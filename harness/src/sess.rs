//! Session-level plumbing: a reference peer encoder (RefChunkEnc + RefMsg), an observer that
//! decodes everything a session emits (RefChunkDec strict + RefMsg), and conversions of session
//! results into comparable observations.

use crate::refs::amf0::{self as ra, S, V};
use crate::refs::chunk::{DecMsg, EncOpts, Msg, RefChunkDec, RefChunkEnc};
use crate::refs::msg::RM;
use rml_rtmp::sessions::{ClientSessionEvent, ClientSessionResult, ServerSessionEvent, ServerSessionResult};

/// Encodes messages the way a foreign peer would.
pub struct PeerEnc {
    pub enc: RefChunkEnc,
    pub want_fmt: u8,
    /// bytes produced so far
    pub total: u64,
}

impl PeerEnc {
    pub fn new() -> PeerEnc {
        PeerEnc { enc: RefChunkEnc::new(), want_fmt: 3, total: 0 }
    }

    pub fn csid_for(type_id: u8) -> u32 {
        match type_id {
            1..=6 => 2,
            8 => 4,
            9 => 6,
            18 | 15 => 5,
            _ => 3,
        }
    }

    pub fn raw(&mut self, type_id: u8, body: Vec<u8>, msid: u32, ts: u32) -> Vec<u8> {
        let m = Msg { ts, type_id, msid, payload: body };
        let e = self.enc.encode(&m, &EncOpts { csid: Self::csid_for(type_id), want_fmt: self.want_fmt, three_byte: false, fmt0_continuation: false });
        let out = e.chunks.concat();
        self.total += out.len() as u64;
        out
    }

    pub fn send(&mut self, rm: &RM, msid: u32, ts: u32) -> Vec<u8> {
        let body = rm.body().expect("reference message must be encodable");
        self.raw(rm.type_id(), body, msid, ts)
    }

    pub fn set_chunk_size(&mut self, size: u32, ts: u32) -> Vec<u8> {
        let out = self.enc.set_chunk_size(size, ts);
        self.total += out.len() as u64;
        out
    }
}

/// One decoded outbound message of a session.
#[derive(Clone, Debug)]
pub struct OutMsg {
    pub dec: DecMsg,
    /// the reference parse of the body (Err = body not well-formed for its type id)
    pub rm: Result<RM, String>,
    /// index of the packet (in emission order) that carried it
    pub packet: usize,
    pub droppable: bool,
}

/// Observer for everything a session emits: must be fed every packet from the constructor on.
pub struct OutDec {
    pub dec: RefChunkDec,
    pub packets: usize,
}

impl OutDec {
    pub fn new() -> OutDec {
        OutDec { dec: RefChunkDec::new(true), packets: 0 }
    }

    /// Feeds one packet; every packet must consist of whole messages.
    pub fn packet(&mut self, bytes: &[u8], droppable: bool) -> Result<Vec<OutMsg>, String> {
        let idx = self.packets;
        self.packets += 1;
        let msgs = self.dec.feed(bytes).map_err(|e| format!("packet {}: {}", idx, e))?;
        if self.dec.pending_bytes() != 0 || self.dec.incomplete() != 0 {
            return Err(format!("packet {} does not consist of whole messages ({} stray bytes, {} incomplete)", idx, self.dec.pending_bytes(), self.dec.incomplete()));
        }
        Ok(msgs
            .into_iter()
            .map(|d| {
                let t = match d.msg.type_id {
                    15 => 18,
                    17 => 20,
                    t => t,
                };
                let rm = RM::parse(t, &d.msg.payload);
                OutMsg { dec: d, rm, packet: idx, droppable }
            })
            .collect())
    }
}

// ------------------------------------------------------------------------------------------------
// AMF helpers for protocol commands

pub fn num(x: f64) -> V {
    V::Num(x.to_bits())
}
pub fn st(s: &str) -> V {
    V::Str(S::lit(s))
}
pub fn obj(pairs: Vec<(&str, V)>) -> V {
    V::Obj(pairs.into_iter().map(|(k, v)| (S::lit(k), v)).collect())
}
pub fn command(name: &str, tid: f64, object: V, args: Vec<V>) -> RM {
    RM::Command(S::lit(name), tid.to_bits(), object, args)
}

/// Looks a property up in a reference object.
pub fn prop<'a>(v: &'a V, key: &str) -> Option<&'a V> {
    match v {
        V::Obj(p) | V::Ecma(_, p) => p.iter().find(|(k, _)| k.build() == key).map(|(_, v)| v),
        _ => None,
    }
}

pub fn as_str(v: &V) -> Option<String> {
    match v {
        V::Str(s) => Some(s.build()),
        _ => None,
    }
}

pub fn as_num(v: &V) -> Option<f64> {
    match v {
        V::Num(b) => Some(f64::from_bits(*b)),
        _ => None,
    }
}

/// Splits server results into (packets, events, unhandled count).
pub struct ServerOut {
    pub packets: Vec<(Vec<u8>, bool)>,
    pub events: Vec<ServerSessionEvent>,
    pub unhandled: Vec<Msg>,
}

pub fn split_server(results: Vec<ServerSessionResult>) -> ServerOut {
    let mut o = ServerOut { packets: Vec::new(), events: Vec::new(), unhandled: Vec::new() };
    for r in results {
        match r {
            ServerSessionResult::OutboundResponse(p) => o.packets.push((p.bytes, p.can_be_dropped)),
            ServerSessionResult::RaisedEvent(e) => o.events.push(e),
            ServerSessionResult::UnhandleableMessageReceived(m) => o.unhandled.push(crate::drive::payload_of(&m)),
        }
    }
    o
}

pub struct ClientOut {
    pub packets: Vec<(Vec<u8>, bool)>,
    pub events: Vec<ClientSessionEvent>,
    pub unhandled: Vec<Msg>,
}

pub fn split_client(results: Vec<ClientSessionResult>) -> ClientOut {
    let mut o = ClientOut { packets: Vec::new(), events: Vec::new(), unhandled: Vec::new() };
    for r in results {
        match r {
            ClientSessionResult::OutboundResponse(p) => o.packets.push((p.bytes, p.can_be_dropped)),
            ClientSessionResult::RaisedEvent(e) => o.events.push(e),
            ClientSessionResult::UnhandleableMessageReceived(m) => o.unhandled.push(crate::drive::payload_of(&m)),
        }
    }
    o
}

pub fn lib_amf_brief(v: &rml_amf0::Amf0Value) -> String {
    ra::brief(std::slice::from_ref(v))
}

// ------------------------------------------------------------------------------------------------
// Recording of everything a session returned (used by C18) and clock scripts

#[derive(Clone, Debug)]
pub struct PacketRec {
    pub bytes: Vec<u8>,
    pub droppable: bool,
    /// Some(flag) when the packet came from a send/publish audio/video call that asked for `flag`
    pub asked: Option<bool>,
    /// index of the operation that returned it (usize::MAX = constructor)
    pub call: usize,
    /// the message stream id the application call or the accepted request named, if any
    pub expect_msid: Option<u32>,
    /// session age in ms (sum of clock shifts) when the packet was returned
    pub age: u64,
}

#[derive(Clone, Debug, Default, serde::Serialize, serde::Deserialize)]
pub struct Clock {
    /// age of the session right after construction (ms)
    pub age0: u64,
    /// (position as a fraction of the history, shift in ms) applied before that operation
    pub jumps: Vec<(u16, u64)>,
}

impl Clock {
    pub fn shift_before(&self, idx: usize, n_ops: usize) -> u64 {
        let mut total = 0u64;
        for (f, ms) in &self.jumps {
            if ((*f as usize) * n_ops) >> 16 == idx {
                total += *ms;
            }
        }
        total
    }
}

#[derive(Clone, Debug, Default)]
pub struct Tag {
    pub call: usize,
    pub asked: Option<bool>,
    pub expect_msid: Option<u32>,
    pub age: u64,
}

// ------------------------------------------------------------------------------------------------
// Canonical text of events (AMF0 objects sorted by name: HashMap iteration order is random)

fn canon(v: &rml_amf0::Amf0Value) -> String {
    format!("{:?}", ra::from_lib(v))
}

pub fn fmt_server_event(e: &ServerSessionEvent) -> String {
    match e {
        ServerSessionEvent::UnhandleableAmf0Command { command_name, transaction_id, command_object, additional_values } => format!(
            "UnhandleableAmf0Command({:?}, {:#x}, {}, [{}])",
            command_name,
            transaction_id.to_bits(),
            canon(command_object),
            additional_values.iter().map(canon).collect::<Vec<_>>().join(", ")
        ),
        other => format!("{:?}", other).replace("NaN", "nan"),
    }
}

pub fn fmt_client_event(e: &ClientSessionEvent) -> String {
    match e {
        ClientSessionEvent::UnhandleableAmf0Command { command_name, transaction_id, command_object, additional_values } => format!(
            "UnhandleableAmf0Command({:?}, {:#x}, {}, [{}])",
            command_name,
            transaction_id.to_bits(),
            canon(command_object),
            additional_values.iter().map(canon).collect::<Vec<_>>().join(", ")
        ),
        ClientSessionEvent::UnknownTransactionResultReceived { transaction_id, command_object, additional_values } => format!(
            "UnknownTransactionResultReceived({:#x}, {}, [{}])",
            transaction_id.to_bits(),
            canon(command_object),
            additional_values.iter().map(canon).collect::<Vec<_>>().join(", ")
        ),
        other => format!("{:?}", other).replace("NaN", "nan"),
    }
}
