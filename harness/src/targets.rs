//! Coverage-guided fuzz targets (libFuzzer through cargo-fuzz; see /verif/fuzz).  Each target is a
//! function `fn(&[u8])` that decodes the bytes into structured arguments, runs the library and
//! checks the property's oracle *inside* the target; a violated oracle panics, which libFuzzer
//! turns into a saved artifact.  `vcheck replay <file>.bin` re-runs an artifact through the same
//! function.  All targets are stateless between iterations (fresh sessions / codecs per input).

use crate::drive::*;
use crate::gen::Partition;
use crate::props::c03::{self, Target};
use crate::refs::amf0 as ra;
use crate::refs::chunk::Msg;
use crate::refs::msg as rm;
use crate::sess::*;
use bytes::Bytes;
use rml_rtmp::chunk_io::ChunkDeserializer;
use rml_rtmp::handshake::Handshake;
use rml_rtmp::messages::MessagePayload;
use rml_rtmp::time::RtmpTimestamp;
use std::io::Cursor;

pub const TARGETS: &[(&str, &str)] = &[
    ("deser", "C03"),
    ("message", "C03"),
    ("server", "C03"),
    ("client", "C03"),
    ("handshake", "C03"),
    ("amf0_diff", "C12"),
    ("amf0_decode", "C14"),
    ("split", "C15"),
    ("chunk_roundtrip", "C01"),
    ("foreign_stream", "C06"),
    // structure-aware targets: the fuzzer's bytes are the entropy of the property's own proptest
    // strategy (RngAlgorithm::PassThrough), the property's own oracle judges the generated case
    ("pt_interop", "C02"),
    ("pt_amf0_roundtrip", "C04"),
    ("pt_handshake", "C05"),
    ("pt_drop_subsets", "C08"),
    ("pt_model_server", "C09"),
    ("pt_model_client", "C10"),
    ("pt_msg_roundtrip", "C13"),
    ("pt_interleave", "C16"),
    ("pt_ack", "C17"),
    ("pt_session_emit", "C18"),
];

pub fn run_target(name: &str, data: &[u8]) -> bool {
    match name {
        "deser" => deser(data),
        "message" => message(data),
        "server" => server(data),
        "client" => client(data),
        "handshake" => handshake(data),
        "amf0_diff" => amf0_diff(data),
        "amf0_decode" => amf0_decode(data),
        "split" => split(data),
        "chunk_roundtrip" => chunk_roundtrip(data),
        "foreign_stream" => foreign_stream(data),
        "pt_interop" => pt_interop(data),
        "pt_amf0_roundtrip" => pt_amf0_roundtrip(data),
        "pt_handshake" => pt_handshake(data),
        "pt_drop_subsets" => pt_drop_subsets(data),
        "pt_model_server" => pt_model_server(data),
        "pt_model_client" => pt_model_client(data),
        "pt_msg_roundtrip" => pt_msg_roundtrip(data),
        "pt_interleave" => pt_interleave(data),
        "pt_ack" => pt_ack(data),
        "pt_session_emit" => pt_session_emit(data),
        _ => return false,
    }
    true
}

struct Rd<'a> {
    b: &'a [u8],
    p: usize,
}

impl<'a> Rd<'a> {
    fn new(b: &'a [u8]) -> Rd<'a> {
        Rd { b, p: 0 }
    }
    fn u8(&mut self) -> u8 {
        let v = self.b.get(self.p).copied().unwrap_or(0);
        self.p += 1;
        v
    }
    fn u16(&mut self) -> u16 {
        (self.u8() as u16) << 8 | self.u8() as u16
    }
    fn u32(&mut self) -> u32 {
        (self.u16() as u32) << 16 | self.u16() as u32
    }
    fn left(&self) -> usize {
        self.b.len().saturating_sub(self.p)
    }
    fn take(&mut self, n: usize) -> &'a [u8] {
        let s = self.p.min(self.b.len());
        let e = (self.p + n).min(self.b.len());
        self.p += n;
        &self.b[s..e]
    }
    fn rest(&mut self) -> &'a [u8] {
        let s = self.p.min(self.b.len());
        self.p = self.b.len();
        &self.b[s..]
    }
}

fn partition_from(sel: u8, a: u16, b: u16) -> Partition {
    match sel % 5 {
        0 => Partition::Whole,
        1 => Partition::ByteByByte,
        2 => Partition::Every((a % 64).max(1)),
        3 => Partition::Cuts(vec![a]),
        _ => Partition::Cuts(vec![a, b]),
    }
}

/// u32 values with boundary bias from two bytes of selector + four bytes of value
fn edge(r: &mut Rd) -> u32 {
    let sel = r.u8();
    if sel < 160 {
        crate::gen::U32_EDGES[sel as usize % crate::gen::U32_EDGES.len()]
    } else if sel < 220 {
        r.u8() as u32
    } else {
        r.u32()
    }
}

// ---------------------------------------------------------------- C03

/// [partition selector, a, b] ++ peer bytes for a fresh ChunkDeserializer
pub fn deser(data: &[u8]) {
    let mut r = Rd::new(data);
    let p = partition_from(r.u8(), r.u16(), r.u16());
    let stream = r.rest();
    let mut de = ChunkDeserializer::new();
    let mut out = Vec::new();
    for piece in p.pieces(stream) {
        let _ = lib_feed(&mut de, piece, &mut out);
    }
}

/// [type id] ++ body.  Oracle beyond "returns": a decoded message re-encodes and decodes to an
/// equal message (idempotence that follows from C13 + C04).
pub fn message(data: &[u8]) {
    let mut r = Rd::new(data);
    let type_id = r.u8();
    let body = r.rest();
    let p = MessagePayload { timestamp: RtmpTimestamp::new(5), type_id, message_stream_id: 1, data: Bytes::from(body.to_vec()) };
    if let Ok(msg) = p.to_rtmp_message() {
        // skip objects with an empty property name (cannot arise from the decoder) — nothing to skip
        match MessagePayload::from_rtmp_message(msg.clone(), RtmpTimestamp::new(5), 1) {
            Ok(p2) => match p2.to_rtmp_message() {
                Ok(m2) => assert!(rm::msg_eq(&m2, &msg), "C13 message -> payload -> message changed the message: {} vs {}", rm::brief_msg(&msg), rm::brief_msg(&m2)),
                Err(e) => panic!("C13 re-encoded message does not decode: {:?} ({})", e, rm::brief_msg(&msg)),
            },
            Err(e) => panic!("C13 a decoded message cannot be re-encoded: {:?} ({})", e, rm::brief_msg(&msg)),
        }
    }
}

fn session(data: &[u8], server: bool) {
    let mut r = Rd::new(data);
    let prep = r.u8() % 4;
    let mode = r.u8();
    let target = if server { Target::Server(prep) } else { Target::Client(prep) };
    let (mut sess, mut enc) = match c03::prepare(&target) {
        Ok(x) => x,
        Err(e) => panic!("preparation failed: {}", e),
    };
    let mut feed = |sess: &mut c03::Sess, bytes: &[u8]| match sess {
        c03::Sess::S(s) => {
            let _ = s.handle_input(bytes);
        }
        c03::Sess::C(s) => {
            let _ = s.handle_input(bytes);
        }
    };
    if mode % 2 == 0 {
        // raw peer bytes under a partition
        let p = partition_from(r.u8(), r.u16(), r.u16());
        let stream = r.rest();
        for piece in p.pieces(stream) {
            feed(&mut sess, piece);
        }
    } else {
        // framed records: [type id, message stream id, length (u16), body...] framed by the
        // reference peer so the bytes reach the message handlers; type id 0xFF = application call
        let mut n = 0u32;
        while r.left() >= 2 && n < 64 {
            n += 1;
            let type_id = r.u8();
            let msid = r.u8() as u32 % 5;
            if type_id == 0xFF {
                let k = r.u8();
                let id = r.u8() as u32 % 8;
                match &mut sess {
                    c03::Sess::S(s) => match k % 6 {
                        0 | 1 | 2 => {
                            let _ = s.accept_request(id);
                        }
                        3 => {
                            let _ = s.reject_request(id, "c", "d");
                        }
                        4 => {
                            let _ = s.finish_playing(id);
                        }
                        _ => {
                            let _ = s.send_video_data(id, Bytes::from(vec![1u8; k as usize]), RtmpTimestamp::new(k as u32), k % 2 == 0);
                        }
                    },
                    c03::Sess::C(c) => match k % 8 {
                        0 => {
                            let _ = c.request_connection("a".to_string());
                        }
                        1 => {
                            let _ = c.request_playback("k".to_string());
                        }
                        2 => {
                            let _ = c.request_publishing("k".to_string(), rml_rtmp::sessions::PublishRequestType::Live);
                        }
                        3 => {
                            let _ = c.stop_playback();
                        }
                        4 => {
                            let _ = c.stop_publishing();
                        }
                        5 => {
                            let _ = c.publish_audio_data(Bytes::from(vec![2u8; k as usize]), RtmpTimestamp::new(k as u32), k % 2 == 0);
                        }
                        6 => {
                            let _ = c.send_ping_request();
                        }
                        _ => {
                            let _ = c.publish_metadata(&rml_rtmp::sessions::StreamMetadata::new());
                        }
                    },
                }
                continue;
            }
            let len = (r.u16() as usize) % 700;
            let body = r.take(len).to_vec();
            let bytes = enc.raw(type_id, body, msid, n * 10);
            if type_id == 1 {
                // keep the peer encoder in step with what the session will accept
                let v = bytes.len();
                let _ = v;
            }
            feed(&mut sess, &bytes);
        }
    }
}

pub fn server(data: &[u8]) {
    session(data, true)
}

pub fn client(data: &[u8]) {
    session(data, false)
}

pub fn handshake(data: &[u8]) {
    let mut r = Rd::new(data);
    let role = r.u8();
    let p = partition_from(r.u8(), r.u16(), r.u16());
    let stream = r.rest();
    let mut h = Handshake::new(if role % 2 == 0 { rml_rtmp::handshake::PeerType::Server } else { rml_rtmp::handshake::PeerType::Client });
    if role % 4 >= 2 {
        let _ = h.generate_outbound_p0_and_p1();
    }
    let mut received = 0usize;
    let mut errored = false;
    for piece in p.pieces(stream) {
        received += piece.len();
        match h.process_bytes(piece) {
            Err(_) => errored = true, // keep feeding (robustness), but the invariants below no longer apply
            Ok(rml_rtmp::handshake::HandshakeProcessResult::Completed { remaining_bytes, .. }) => {
                if errored {
                    // an earlier error (e.g. a bad version byte, which is consumed) shifts what the
                    // handshake takes for the packets; a caller would have given up at the error
                    break;
                }
                // C05 invariants that hold for arbitrary input as well
                assert!(received >= 3073, "C05 completion after only {} bytes", received);
                assert!(remaining_bytes.len() <= received - 3073, "C05 remaining_bytes longer than what followed the handshake");
                assert!(remaining_bytes[..] == stream[3073..3073 + remaining_bytes.len()], "C05 remaining_bytes differ from the bytes that followed packet 2");
                break;
            }
            _ => {}
        }
    }
}

// ---------------------------------------------------------------- C12 / C14

/// bytes => RefAmf0 strict decoder vs library: a complete, well-formed encoding (no empty names,
/// nesting within the library's documented limit) must decode to the value it denotes; whatever
/// the library accepts must survive its own encode -> decode unchanged.
pub fn amf0_diff(data: &[u8]) {
    let lib = rml_amf0::deserialize(&mut Cursor::new(data));
    if let Ok(tree) = ra::dec_strict_bounded(data, 64) {
        let has_empty_name = tree.iter().any(|v| {
            let mut f = false;
            ra::walk(v, &mut |n| {
                if let ra::V::Obj(p) | ra::V::Ecma(_, p) = n {
                    if p.iter().any(|(k, _)| k.len() == 0) {
                        f = true;
                    }
                }
            });
            f
        });
        if !has_empty_name {
            match &lib {
                Ok(values) => assert!(ra::lib_list_eq(values, &ra::to_lib_list(&tree)), "C12 well-formed encoding decoded to {} but denotes {}", ra::brief(values), ra::brief(&ra::to_lib_list(&tree))),
                Err(e) => panic!("C12 well-formed encoding rejected: {:?}", e),
            }
        }
    }
    if let Ok(values) = lib {
        // strings longer than 65535 cannot come out of the decoder, so serialize must succeed
        match rml_amf0::serialize(&values) {
            Ok(bytes) => match rml_amf0::deserialize(&mut Cursor::new(bytes)) {
                Ok(again) => assert!(ra::lib_list_eq(&again, &values), "C04 decode -> encode -> decode changed the value"),
                Err(e) => panic!("C04 re-encoded value does not decode: {:?}", e),
            },
            Err(e) => panic!("C04 a decoded value cannot be encoded: {:?}", e),
        }
    }
}

/// C14 inside the fuzzing process: decode on a 2 MiB stack, measure the peak heap.
pub fn amf0_decode(data: &[u8]) {
    if !crate::alloc::enabled() {
        crate::alloc::enable(usize::MAX);
    }
    let owned = data.to_vec();
    let h = std::thread::Builder::new()
        .stack_size(2 << 20)
        .spawn(move || {
            let len = owned.len();
            let ((), peak) = crate::alloc::measure(|| {
                let r = rml_amf0::deserialize(&mut Cursor::new(&owned[..]));
                drop(r);
            });
            assert!(peak <= 192 * len + 128 * 1024, "C14 decoding {} bytes allocated {} bytes at peak", len, peak);
        })
        .expect("spawn");
    if h.join().is_err() {
        panic!("C14 decoding thread panicked");
    }
}

// ---------------------------------------------------------------- C15

/// bytes => stream + two partitions; deserializer results must agree with one-call delivery.
pub fn split(data: &[u8]) {
    let mut r = Rd::new(data);
    let p1 = partition_from(r.u8(), r.u16(), r.u16());
    let p2 = partition_from(r.u8(), r.u16(), r.u16());
    let stream = r.rest();
    let base = lib_decode(stream, &Partition::Whole);
    for p in [&Partition::ByteByByte, &p1, &p2] {
        let got = lib_decode(stream, p);
        if let Some(d) = first_difference(&got.0, &base.0) {
            panic!("C15 partition {:?} disagrees with one-call delivery: {}", p, d);
        }
        assert!(got.1.is_some() == base.1.is_some(), "C15 partition {:?} ends with {:?}, one-call delivery with {:?}", p, got.1, base.1);
    }
}

// ---------------------------------------------------------------- C01 / C07 / C06 (structured)

fn ops_from(r: &mut Rd) -> Seq {
    let mut ops = Vec::new();
    let n = (r.u8() % 10) as usize + 1;
    // palette
    let types = [r.u8().max(2), r.u8().max(2)];
    let msids = [edge(r), edge(r)];
    let dts = [edge(r), edge(r)];
    let lens = [(r.u16() % 700) as u32, (r.u16() % 300) as u32];
    for _ in 0..n {
        let k = r.u8();
        if k < 24 {
            let cs = edge(r) % 0x7FFF_FFFF + 1;
            ops.push(Op::Chunk(if k < 12 { cs } else { (cs % 300) + 1 }));
            continue;
        }
        let s = r.u8();
        let type_id = if s & 1 == 0 { types[(s >> 1) as usize & 1] } else { r.u8() };
        let type_id = if type_id == 1 { 2 } else { type_id };
        ops.push(Op::Msg(MsgSpec {
            type_id,
            msid: if s & 4 == 0 { msids[(s >> 3) as usize & 1] } else { edge(r) },
            dts: if s & 16 == 0 { dts[(s >> 5) as usize & 1] } else { edge(r) },
            len: if s & 64 == 0 { lens[(s >> 7) as usize & 1] } else { (r.u16() % 2000) as u32 },
            fill: k as u32,
            force: k % 11 == 0,
            drop: k % 7 == 0,
        }));
    }
    Seq { ops }
}

/// structured bytes => message sequence: C01 (round-trip under a partition) and C07 (strict
/// reference decode) oracles in one target.
pub fn chunk_roundtrip(data: &[u8]) {
    let mut r = Rd::new(data);
    let p = partition_from(r.u8(), r.u16(), r.u16());
    let seq = ops_from(&mut r);
    let ser = match run_serializer(&seq) {
        Ok(s) => s,
        Err(e) => panic!("C01 {}", e),
    };
    let stream: Vec<u8> = ser.packets.iter().flat_map(|x| x.0.iter().copied()).collect();
    let (got, err) = lib_decode(&stream, &p);
    if let Some(e) = err {
        panic!("C01 deserializer error: {}", e);
    }
    if let Some(d) = first_difference(&got, &ser.expected) {
        panic!("C01 round-trip mismatch: {}", d);
    }
    match ref_decode(true, &stream) {
        Ok((dec, _)) => {
            let m: Vec<Msg> = dec.iter().map(|d| d.msg.clone()).collect();
            if let Some(d) = first_difference(&m, &ser.expected) {
                panic!("C07 conformant decoder reads different messages: {}", d);
            }
        }
        Err(e) => panic!("C07 serializer output not conformant: {}", e),
    }
}

/// structured bytes => foreign (reference-encoded) stream: C06 oracle.
pub fn foreign_stream(data: &[u8]) {
    let mut r = Rd::new(data);
    let p = partition_from(r.u8(), r.u16(), r.u16());
    let n = (r.u8() % 10) as usize + 1;
    let csids = [2 + (r.u8() as u32 % 7), [63u32, 64, 65, 319, 320, 321, 65599, 700][r.u8() as usize % 8]];
    let mut ops = Vec::new();
    let msids = [edge(&mut r), edge(&mut r)];
    let dts = [edge(&mut r), edge(&mut r)];
    let lens = [(r.u16() % 700) as u32, (r.u16() % 300) as u32];
    let types = [r.u8(), r.u8()];
    for _ in 0..n {
        let k = r.u8();
        if k < 20 {
            ops.push(FOp::Chunk((edge(&mut r) % 400) + 1));
            continue;
        }
        let s = r.u8();
        let t = types[(s & 1) as usize];
        ops.push(FOp::Msg(FMsg {
            csid: csids[(s >> 1) as usize & 1],
            want_fmt: (s >> 2) & 3,
            three_byte: k % 9 == 0,
            fmt0_cont: k % 23 == 0,
            type_id: if t == 1 { 3 } else { t },
            msid: if s & 16 == 0 { msids[(s >> 5) as usize & 1] } else { edge(&mut r) },
            dts: if s & 64 == 0 { dts[(s >> 7) as usize & 1] } else { edge(&mut r) },
            len: lens[(k & 1) as usize],
            fill: k as u32,
        }));
    }
    let f = encode_foreign(&ops);
    let (dec, _) = match ref_decode(!f.non_minimal_csid, &f.stream) {
        Ok(x) => x,
        Err(_) => return, // harness self-check failure is not the target's business
    };
    if dec.len() != f.expected.len() {
        return;
    }
    let (got, err) = lib_decode(&f.stream, &p);
    if let Some(e) = err {
        panic!("C06 conformant stream rejected: {}", e);
    }
    if let Some(d) = first_difference(&got, &f.expected) {
        panic!("C06 conformant stream decoded differently: {}", d);
    }
}

/// Writes seed inputs for a target into `dir` (valid material the fuzzer can mutate).
pub fn write_corpus(target: &str, dir: &std::path::Path) -> std::io::Result<usize> {
    std::fs::create_dir_all(dir)?;
    let mut n = 0usize;
    let mut put = |name: String, bytes: Vec<u8>| -> std::io::Result<()> {
        std::fs::write(dir.join(name), bytes)?;
        Ok(())
    };
    let mut peer = PeerEnc::new();
    let valid_client_to_server: Vec<Vec<u8>> = vec![
        peer.send(&command("connect", 1.0, obj(vec![("app", st("live")), ("objectEncoding", num(0.0))]), vec![]), 0, 0),
        peer.send(&command("createStream", 2.0, ra::V::Null, vec![]), 0, 10),
        peer.send(&command("publish", 3.0, ra::V::Null, vec![st("key"), st("live")]), 1, 20),
        peer.send(&rm::RM::Data(vec![st("@setDataFrame"), st("onMetaData"), obj(vec![("width", num(1.0))])]), 1, 30),
        peer.send(&rm::RM::Audio(vec![1, 2, 3]), 1, 40),
        peer.send(&rm::RM::UserControl(6, vec![7]), 0, 50),
        peer.send(&command("deleteStream", 0.0, ra::V::Null, vec![num(1.0)]), 0, 60),
    ];
    let mut peer2 = PeerEnc::new();
    let valid_server_to_client: Vec<Vec<u8>> = vec![
        peer2.send(&rm::RM::WindowAck(5000), 0, 0),
        peer2.send(&command("_result", 1.0, ra::V::Null, vec![obj(vec![("code", st("NetConnection.Connect.Success"))])]), 0, 0),
        peer2.send(&command("_result", 2.0, ra::V::Null, vec![num(1.0)]), 0, 0),
        peer2.send(&command("onStatus", 0.0, ra::V::Null, vec![obj(vec![("code", st("NetStream.Play.Start"))])]), 1, 0),
        peer2.send(&rm::RM::Video(vec![9; 200]), 1, 40),
    ];
    match target {
        "deser" | "split" => {
            for (i, pre) in [vec![0u8, 0, 0, 0, 0], vec![1, 0, 0, 0, 0], vec![3, 0x40, 0, 0, 0]].into_iter().enumerate() {
                let mut v = pre.clone();
                if target == "split" {
                    v.extend_from_slice(&pre);
                }
                v.extend(valid_client_to_server.concat());
                put(format!("valid-{}", i), v)?;
                n += 1;
            }
        }
        "server" | "client" => {
            let msgs = if target == "server" { &valid_client_to_server } else { &valid_server_to_client };
            for prep in 0..4u8 {
                let mut v = vec![prep, 0, 0, 0, 0, 0, 0];
                v.extend(msgs.concat());
                put(format!("raw-prep{}", prep), v)?;
                // framed mode: records
                let mut f = vec![prep, 1];
                for (t, body) in [(20u8, command("publish", 0.0, ra::V::Null, vec![st("k"), st("live")]).body().unwrap()), (18, rm::RM::Data(vec![st("@setDataFrame"), st("onMetaData"), obj(vec![])]).body().unwrap()), (8, vec![1, 2, 3]), (4, vec![0, 6, 0, 0, 0, 1])] {
                    f.push(t);
                    f.push(1);
                    f.extend_from_slice(&(body.len() as u16).to_be_bytes());
                    f.extend(body);
                    f.extend_from_slice(&[0xFF, 0, 0, 0]);
                }
                put(format!("framed-prep{}", prep), f)?;
                n += 2;
            }
        }
        "message" => {
            for m in [command("connect", 1.0, obj(vec![("app", st("x"))]), vec![num(1.0)]), rm::RM::UserControl(3, vec![1, 2]), rm::RM::PeerBw(5, 2), rm::RM::Data(vec![st("a"), ra::V::Ecma(1, vec![(ra::S::lit("k"), ra::V::Bool(7))])])] {
                let mut v = vec![m.type_id()];
                v.extend(m.body().unwrap());
                put(format!("msg-{}", n), v)?;
                n += 1;
            }
        }
        "handshake" => {
            for (i, digest) in [true, false].into_iter().enumerate() {
                let (p1, _) = crate::props::c11::peer_p1(crate::refs::sha::Role::Client, if digest { Some(crate::refs::sha::Scheme::At8) } else { None }, 5, false, 0, 42, 0);
                let mut v = vec![0u8, 0, 0, 0, 0, 0, 3];
                v.extend(&p1);
                v.extend(&p1);
                v.extend_from_slice(b"trailing");
                put(format!("hs-{}", i), v)?;
                n += 1;
            }
        }
        "amf0_diff" | "amf0_decode" => {
            let vals = vec![
                vec![st("connect"), num(1.0), obj(vec![("app", st("live")), ("n", obj(vec![("x", ra::V::Null)]))]), ra::V::Arr(vec![ra::V::Bool(1), ra::V::Undef])],
                vec![ra::V::Ecma(2, vec![(ra::S::lit("a"), num(2.5)), (ra::S::lit("b"), st("é"))])],
            ];
            for v in vals {
                put(format!("amf-{}", n), ra::enc(&v).unwrap())?;
                n += 1;
            }
            put("nest".to_string(), [0x0Au8, 0, 0, 0, 1].repeat(40))?;
            n += 1;
        }
        t if t.starts_with("pt_") => {
            for (i, bytes) in pt_seed_inputs(t, 24).into_iter().enumerate() {
                put(format!("recorded-{}", i), bytes)?;
                n += 1;
            }
        }
        _ => {
            put("empty".to_string(), vec![0u8; 16])?;
            put("ones".to_string(), (0..96u8).collect())?;
            n += 2;
        }
    }
    Ok(n)
}

// ------------------------------------------------------------------------------------------------
// Replay of the committed regression corpus (/verif/corpus/<target>/*) as an ordinary sub-check

use crate::core::{Ctx, DynCheck, EnumCheck, Obs, Verdict};

#[derive(Clone, Debug, serde::Serialize, serde::Deserialize)]
pub struct CorpusCase {
    pub target: String,
    pub file: String,
}

pub fn corpus_check(targets: &'static [&'static str]) -> Box<dyn DynCheck> {
    EnumCheck::new(
        "committed-corpus-replay",
        false,
        move |ctx: &Ctx| {
            let mut v = Vec::new();
            for t in targets {
                let dir = ctx.root.join("corpus").join(t);
                let mut names: Vec<String> = std::fs::read_dir(&dir).map(|d| d.filter_map(|e| e.ok()).map(|e| e.path().to_string_lossy().to_string()).collect()).unwrap_or_default();
                names.sort();
                for f in names {
                    v.push(CorpusCase { target: t.to_string(), file: f });
                }
            }
            v
        },
        |c: &CorpusCase| {
            let data = match std::fs::read(&c.file) {
                Ok(d) => d,
                Err(e) => return Verdict::Harness(format!("cannot read {}: {}", c.file, e)),
            };
            run_target(&c.target, &data);
            let mut obs = Obs::new();
            obs.class("corpus-file-replayed");
            obs.nontrivial = data.len() > 8;
            Verdict::Pass(obs)
        },
    )
}

// ------------------------------------------------------------------------------------------------
// Structure-aware targets driven through the properties' own strategies

use proptest::strategy::{BoxedStrategy, Strategy, ValueTree};
use proptest::test_runner::{Config, RngAlgorithm, TestRng, TestRunner};
use std::any::Any;
use std::cell::RefCell;
use std::collections::HashMap;

thread_local! {
    static STRATEGIES: RefCell<HashMap<&'static str, Box<dyn Any>>> = RefCell::new(HashMap::new());
}

fn fuzz_ctx() -> Ctx {
    Ctx { tier: crate::core::Tier::Quick, seed: 0, threads: 1, root: crate::core::verif_root(), scale: 1.0 }
}

/// Generates one case from `data` (as pass-through entropy) with the cached strategy `key` and
/// judges it with `eval`; a Fail verdict panics (libFuzzer saves the input).
fn fuzz_strategy<C: std::fmt::Debug + 'static>(key: &'static str, mk: impl FnOnce() -> BoxedStrategy<C>, data: &[u8], eval: impl Fn(&C) -> Verdict) {
    if data.is_empty() {
        return;
    }
    let case = STRATEGIES.with(|m| {
        let mut m = m.borrow_mut();
        let entry = m.entry(key).or_insert_with(|| Box::new(mk()) as Box<dyn Any>);
        let strat = entry.downcast_ref::<BoxedStrategy<C>>().expect("strategy type");
        // proptest's pass-through generator answers with zeros once the input is used up, and
        // some of rand's rejection-sampling loops never accept a stream of zeros: continue the
        // input with a pseudo-random tail derived from it (still a pure function of the input)
        let mut entropy = data.to_vec();
        let mut x = data.iter().fold(0xcbf29ce484222325u64, |h, b| (h ^ *b as u64).wrapping_mul(0x100000001b3));
        while entropy.len() < 24 * 1024 {
            x = x.wrapping_add(0x9E3779B97F4A7C15);
            let mut z = x;
            z = (z ^ (z >> 30)).wrapping_mul(0xBF58476D1CE4E5B9);
            z = (z ^ (z >> 27)).wrapping_mul(0x94D049BB133111EB);
            entropy.extend_from_slice(&(z ^ (z >> 31)).to_le_bytes());
        }
        let mut runner = TestRunner::new_with_rng(Config { failure_persistence: None, ..Config::default() }, TestRng::from_seed(RngAlgorithm::PassThrough, &entropy));
        strat.new_tree(&mut runner).ok().map(|t| t.current())
    });
    if let Some(case) = case {
        match eval(&case) {
            Verdict::Fail(m) => panic!("{} violated: {} -- case: {}", key, crate::core::truncate(&m, 1500), crate::core::truncate(&format!("{:?}", case), 3000)),
            _ => {}
        }
    }
}

pub fn pt_interop(data: &[u8]) {
    fuzz_strategy("C02 interop", || crate::props::c02::scenario(false), data, crate::props::c02::eval)
}

pub fn pt_amf0_roundtrip(data: &[u8]) {
    use proptest::prelude::*;
    fuzz_strategy("C04 roundtrip", || crate::gen::amf_values(crate::gen::AmfCfg::LIB_ANY, 6).prop_map(|values| crate::props::c04::Case { values }).boxed(), data, crate::props::c04::eval)
}

pub fn pt_handshake(data: &[u8]) {
    fuzz_strategy("C05 library-vs-library", || crate::props::c05::fuzz_strategy(), data, crate::props::c05::eval)
}

pub fn pt_drop_subsets(data: &[u8]) {
    use proptest::prelude::*;
    fuzz_strategy(
        "C08 drop-subsets",
        || {
            let cfg = crate::gen::SeqCfg { max_ops: 10, drop_pct: 40, force_pct: 8, chunk_change_pct: 8, len_cap: 1500 };
            (crate::gen::msg_seq(cfg), any::<u32>()).prop_map(|(seq, sample)| crate::props::c08::Case { seq, sample }).boxed()
        },
        data,
        crate::props::c08::eval,
    )
}

pub fn pt_model_server(data: &[u8]) {
    fuzz_strategy("C09 histories", || crate::props::c09::case_strategy(30), data, crate::props::c09::eval)
}

pub fn pt_model_client(data: &[u8]) {
    fuzz_strategy("C10 histories", || crate::props::c10::case_strategy(30), data, crate::props::c10::eval)
}

pub fn pt_msg_roundtrip(data: &[u8]) {
    use proptest::prelude::*;
    fuzz_strategy(
        "C13 message-to-payload-and-back",
        || (crate::props::c13::rm_strategy(), crate::gen::edge_u32(), crate::gen::edge_u32()).prop_map(|(msg, ts, msid)| crate::props::c13::Case { msg, ts, msid }).boxed(),
        data,
        crate::props::c13::eval_roundtrip,
    )
}

pub fn pt_interleave(data: &[u8]) {
    fuzz_strategy("C16 interleaved", || crate::props::c16::fuzz_strategy(), data, crate::props::c16::eval)
}

pub fn pt_ack(data: &[u8]) {
    fuzz_strategy("C17 acknowledgements", || crate::props::c17::fuzz_strategy(), data, crate::props::c17::eval)
}

pub fn pt_session_emit(data: &[u8]) {
    fuzz_strategy("C18 session output", || crate::props::c18::fuzz_strategy(), data, crate::props::c18::eval)
}

/// Seed inputs for a pass-through target: the entropy bytes proptest consumed while generating
/// `n` cases from the target's strategy (RngAlgorithm::Recorder).
pub fn pt_seed_inputs(target: &str, n: usize) -> Vec<Vec<u8>> {
    use proptest::prelude::*;
    fn record<C: std::fmt::Debug>(strat: BoxedStrategy<C>, n: usize) -> Vec<Vec<u8>> {
        let mut out = Vec::new();
        for i in 0..n {
            let mut seed = [0u8; 32];
            seed[0] = i as u8;
            seed[1] = 0x5A;
            let mut runner = TestRunner::new_with_rng(Config { failure_persistence: None, ..Config::default() }, TestRng::from_seed(RngAlgorithm::Recorder, &seed));
            if strat.new_tree(&mut runner).is_ok() {
                let b = runner.bytes_used();
                if !b.is_empty() && b.len() <= 4096 {
                    out.push(b);
                }
            }
        }
        out
    }
    match target {
        "pt_interop" => record(crate::props::c02::scenario(false), n),
        "pt_amf0_roundtrip" => record(crate::gen::amf_values(crate::gen::AmfCfg::LIB_ANY, 6).prop_map(|values| crate::props::c04::Case { values }).boxed(), n),
        "pt_handshake" => record(crate::props::c05::fuzz_strategy(), n),
        "pt_drop_subsets" => {
            let cfg = crate::gen::SeqCfg { max_ops: 10, drop_pct: 40, force_pct: 8, chunk_change_pct: 8, len_cap: 1500 };
            record((crate::gen::msg_seq(cfg), any::<u32>()).prop_map(|(seq, sample)| crate::props::c08::Case { seq, sample }).boxed(), n)
        }
        "pt_model_server" => record(crate::props::c09::case_strategy(30), n),
        "pt_model_client" => record(crate::props::c10::case_strategy(30), n),
        "pt_msg_roundtrip" => record((crate::props::c13::rm_strategy(), crate::gen::edge_u32(), crate::gen::edge_u32()).prop_map(|(msg, ts, msid)| crate::props::c13::Case { msg, ts, msid }).boxed(), n),
        "pt_interleave" => record(crate::props::c16::fuzz_strategy(), n),
        "pt_ack" => record(crate::props::c17::fuzz_strategy(), n),
        "pt_session_emit" => record(crate::props::c18::fuzz_strategy(), n),
        _ => Vec::new(),
    }
}
