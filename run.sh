#!/bin/bash
# Entry point used by every MANIFEST.json command.
#   ./run.sh check <Cxx> [quick|thorough]     build from /repo's working tree (hooks on), run the check
#   ./run.sh replay <file>                    re-run one saved failing case
#   ./run.sh build                            build only (setup_cmd)
# Exit codes: 0 property held on everything explored, 1 VIOLATION printed, 2 harness trouble
# (build failure, inconclusive budget) — never reported as a violation.
set -u
ROOT="$(cd "$(dirname "${BASH_SOURCE[0]}")" && pwd)"
export VERIF_ROOT="$ROOT"
export CARGO_NET_OFFLINE=true
export CARGO_TERM_COLOR=never
HARNESS="$ROOT/harness"
TARGET="${VERIF_TARGET_DIR:-$HARNESS/target}"
LOG="$TARGET/build.log"
# The harness depends on /repo by path.  Background runs started with `vp run --with-repo` get a
# snapshot of the repository in $VP_RUN_REPO; for those (and only those) a copy of the harness
# manifest pointing at the snapshot is built, so /repo itself stays free for other work.
REPO_DIR="${VERIF_REPO:-${VP_RUN_REPO:-/repo}}"
if [ "$REPO_DIR" != "/repo" ]; then
    ALT="$TARGET/alt-harness"
    mkdir -p "$ALT"
    rsync -a --delete --exclude target "$HARNESS/" "$ALT/"
    sed -i "s#\"/repo/#\"$REPO_DIR/#g" "$ALT/Cargo.toml"
    HARNESS="$ALT"
fi

build() {
    mkdir -p "$TARGET"
    # the lock on the target dir serialises concurrent invocations
    if ! (cd "$HARNESS" && cargo build --release --offline --target-dir "$TARGET" >"$LOG.$$" 2>&1); then
        echo "HARNESS-ERROR: build failed (the harness depends on /repo by path; a compile error there lands here)" >&2
        tail -40 "$LOG.$$" >&2
        rm -f "$LOG.$$"
        exit 2
    fi
    rm -f "$LOG.$$"
}

cmd="${1:-}"
case "$cmd" in
    build)
        build
        ;;
    check)
        id="${2:?property id}"
        tier="${3:-${VERIF_TIER:-quick}}"
        build
        shift 3 2>/dev/null || shift $#
        exec "$TARGET/release/vcheck" "$id" --tier "$tier" "$@"
        ;;
    replay)
        build
        exec "$TARGET/release/vcheck" replay "${2:?replay file}"
        ;;
    *)
        echo "usage: $0 build | check <Cxx> [quick|thorough] | replay <file>" >&2
        exit 2
        ;;
esac
