#!/bin/bash
# Entry point used by every MANIFEST.json command.
#   ./run.sh check <Cxx> [quick|thorough]     build from /repo's working tree (hooks on), run the check
#   ./run.sh replay <file>                    re-run one saved failing case
#   ./run.sh build                            build only (setup_cmd)
# Exit codes: 0 property held on everything explored, 1 VIOLATION printed, 2 harness trouble
# (build failure, inconclusive budget) — never reported as a violation.
set -u
ROOT="$(cd "$(dirname "${BASH_SOURCE[0]}")" && pwd)"
export VERIF_ROOT="$ROOT"
export CARGO_NET_OFFLINE=true
export CARGO_TERM_COLOR=never
HARNESS="$ROOT/harness"
TARGET="${VERIF_TARGET_DIR:-$HARNESS/target}"
LOG="$TARGET/build.log"
# The harness depends on /repo by path.  Background runs started with `vp run --with-repo` get a
# snapshot of the repository in $VP_RUN_REPO; for those (and only those) a copy of the harness
# manifest pointing at the snapshot is built, so /repo itself stays free for other work.
REPO_DIR="${VERIF_REPO:-${VP_RUN_REPO:-/repo}}"
if [ "$REPO_DIR" != "/repo" ]; then
    ALT="$TARGET/alt-harness"
    mkdir -p "$ALT"
    rsync -a --delete --exclude "/target" --exclude "/target-*" "$HARNESS/" "$ALT/"
    sed -i -e "s#\"/repo/#\"$REPO_DIR/#g" -e "s#\"../vendor/#\"$ROOT/vendor/#g" "$ALT/Cargo.toml"
    HARNESS="$ALT"
fi

build() {
    mkdir -p "$TARGET"
    # the lock on the target dir serialises concurrent invocations
    if ! (cd "$HARNESS" && cargo build --release --offline --target-dir "$TARGET" >"$LOG.$$" 2>&1); then
        echo "HARNESS-ERROR: build failed (the harness depends on /repo by path; a compile error there lands here)" >&2
        tail -40 "$LOG.$$" >&2
        rm -f "$LOG.$$"
        exit 2
    fi
    rm -f "$LOG.$$"
}

# ---- coverage-guided campaigns (thorough tier only) -------------------------------------------
fuzz_targets_for() {
    case "$1" in
        C01) echo "chunk_roundtrip" ;;
        C02) echo "pt_interop" ;;
        C03) echo "deser message server client handshake" ;;
        C04) echo "pt_amf0_roundtrip" ;;
        C05) echo "pt_handshake" ;;
        C06) echo "foreign_stream" ;;
        C08) echo "pt_drop_subsets" ;;
        C09) echo "pt_model_server" ;;
        C10) echo "pt_model_client" ;;
        C12) echo "amf0_diff" ;;
        C13) echo "pt_msg_roundtrip" ;;
        C14) echo "amf0_decode" ;;
        C15) echo "split" ;;
        C16) echo "pt_interleave" ;;
        C17) echo "pt_ack" ;;
        C18) echo "pt_session_emit" ;;
        *) echo "" ;;
    esac
}

fuzz_campaign() {
    local id="$1" targets="$2"
    local FUZZ="$ROOT/fuzz"
    if [ "$REPO_DIR" != "/repo" ]; then
        FUZZ="$TARGET/alt-fuzz"
        mkdir -p "$FUZZ"
        rsync -a --delete --exclude target --exclude work "$ROOT/fuzz/" "$FUZZ/"
        sed -i 's#path = "../harness"#path = "../alt-harness"#' "$FUZZ/Cargo.toml"
    fi
    local runs="${VERIF_FUZZ_RUNS:-800000}"
    local seed="${VERIF_SEED:-20260925}"
    seed=$(( (seed % 2147483646) + 1 ))
    if ! (cd "$FUZZ" && cargo +nightly fuzz build -s none --fuzz-dir "$FUZZ" >"$FUZZ/build.log" 2>&1); then
        echo "HARNESS-ERROR: fuzz build failed" >&2
        tail -30 "$FUZZ/build.log" >&2
        return 2
    fi
    local BIN="$FUZZ/target/x86_64-unknown-linux-gnu/release"
    local work="$FUZZ/work/$id"
    rm -rf "$work"; mkdir -p "$work"
    local pids=()
    # a property with one target runs it in 4 processes (distinct seeds, shared corpus directory, a
    # quarter of the runs each); C03's five targets run one process each
    local nt; nt=$(echo $targets | wc -w)
    local procs="${VERIF_FUZZ_PROCS:-$([ "$nt" -eq 1 ] && echo 4 || echo 1)}"
    local per=$(( (runs + procs - 1) / procs ))
    for t in $targets; do
        mkdir -p "$work/$t/corpus" "$work/$t/artifacts"
        "$TARGET/release/vcheck" gen-corpus "$t" "$work/$t/corpus" >/dev/null
        [ -d "$ROOT/corpus/$t" ] && cp "$ROOT/corpus/$t"/* "$work/$t/corpus/" 2>/dev/null
        for i in $(seq 1 "$procs"); do
            # wall limit per process: libFuzzer can dead-lock in its own alarm handler; such a process
            # is ended here and counts as inconclusive, never as a violation
            ( timeout -k 10 "${VERIF_FUZZ_WALL:-3000}" "$BIN/$t" -runs="$per" -seed="$(( seed + i - 1 ))" -max_len=4096 -len_control=0 -timeout=25 \
                  -rss_limit_mb=4096 -malloc_limit_mb=1024 -print_final_stats=1 \
                  -artifact_prefix="$work/$t/artifacts/" "$work/$t/corpus" >"$work/$t/log.$i" 2>&1
              echo $? >"$work/$t/exit.$i" ) &
            pids+=($!)
        done
    done
    for p in "${pids[@]}"; do wait "$p"; done
    for t in $targets; do
        # worst exit status of the target's processes; concatenated log for the messages below
        local worst=0
        for i in $(seq 1 "$procs"); do
            local e; e=$(cat "$work/$t/exit.$i" 2>/dev/null || echo 99)
            [ "$e" != "0" ] && worst="$e"
        done
        echo "$worst" >"$work/$t/exit"
        cat "$work/$t"/log.* >"$work/$t/log"
    done
    local rc=0
    local rdir="${VERIF_REPLAY_DIR:-$ROOT/replays}"
    mkdir -p "$rdir"
    for t in $targets; do
        local ex; ex=$(cat "$work/$t/exit" 2>/dev/null || echo 99)
        if [ "$ex" != "0" ]; then
            local found=0
            for a in "$work/$t/artifacts"/*; do
                [ -f "$a" ] || continue
                found=1
                # Every artifact is re-run alone, in a fresh process, through the same target function,
                # with a limit two orders of magnitude above the cost of a case.  libFuzzer's -timeout
                # and memory limits are wall-clock / whole-process measures: on a loaded machine they
                # fire for inputs that take milliseconds.  Only what reproduces is a violation.
                timeout -k 5 "${VERIF_FUZZ_REPLAY_LIMIT:-300}" "$TARGET/release/vcheck" fuzz-replay "$t" "$a" >"$work/$t/replay.out" 2>&1
                local rex=$?
                if [ $rex -eq 0 ]; then
                    echo "INCONCLUSIVE: fuzz target $t saved $(basename "$a"), but the input holds when re-run alone (libFuzzer time / memory limit hit by the campaign process, not by this input); not counted"
                    echo "$(basename "$a")" >>"$work/$t/not_reproduced"
                    continue
                fi
                local h; h=$(sha1sum "$a" | cut -c1-16)
                local dst="$rdir/$id-$t-$h.bin"
                cp "$a" "$dst"
                echo "VIOLATION property=$id replay=$dst"
                if [ $rex -eq 124 ] || [ $rex -eq 137 ]; then
                    echo "  fuzz target=$t artifact=$(basename "$a"): re-run alone it does not return within ${VERIF_FUZZ_REPLAY_LIMIT:-300} s"
                else
                    echo "  fuzz target=$t artifact=$(basename "$a") $(grep -m1 -E 'target=|panic' "$work/$t/replay.out" | cut -c1-300)"
                fi
                rc=1
            done
            if [ $found -eq 0 ]; then
                if [ "$ex" = "124" ] || [ "$ex" = "137" ]; then
                    echo "INCONCLUSIVE: a campaign process of fuzz target $t did not finish within its wall limit and left no artifact; not counted"
                    echo "wall-limit" >>"$work/$t/not_reproduced"
                else
                    echo "HARNESS-ERROR: fuzz target $t exited with $ex without an artifact" >&2
                    tail -5 "$work/$t/log" >&2
                    [ $rc -eq 0 ] && rc=2
                fi
            fi
        fi
    done
    python3 - "${VERIF_EVIDENCE_DIR:-$ROOT/evidence}/$id.json" "$work" $targets <<'PY'
import json, re, sys, os
ev_path, work, targets = sys.argv[1], sys.argv[2], sys.argv[3:]
try:
    ev = json.load(open(ev_path))
except Exception:
    sys.exit(0)
fz = []
total = 0
import glob
for t in targets:
    runs = 0; eps = 0; edges = None; feats = None; corp = None; procs = 0
    for lp in sorted(glob.glob(os.path.join(work, t, 'log.*'))):
        log = open(lp, errors='replace').read()
        procs += 1
        def stat(name):
            m = re.search(r'stat::%s:\s+(\d+)' % name, log)
            return int(m.group(1)) if m else None
        cov = re.findall(r'cov: (\d+) ft: (\d+) corp: (\d+)', log)
        runs += stat('number_of_executed_units') or 0
        eps += stat('average_exec_per_sec') or 0
        if cov:
            edges = max(edges or 0, int(cov[-1][0])); feats = max(feats or 0, int(cov[-1][1])); corp = max(corp or 0, int(cov[-1][2]))
    total += runs
    fz.append({"target": t, "engine": "libFuzzer (cargo-fuzz, no sanitizer: the library is safe Rust; debug assertions and overflow checks on)",
               "processes": procs, "executed_units": runs, "exec_per_sec_all_processes": eps,
               "edges_covered": edges, "features": feats, "corpus_units": corp,
               "exit": open(os.path.join(work, t, 'exit')).read().strip(),
               "artifacts_not_reproduced_when_rerun_alone": (open(os.path.join(work, t, 'not_reproduced')).read().split() if os.path.exists(os.path.join(work, t, 'not_reproduced')) else [])})
ev['coverage']['fuzz_campaigns'] = fz
ev['coverage']['fuzz_executions'] = total
json.dump(ev, open(ev_path, 'w'), indent=1)
print("fuzz: " + ", ".join("%s %s runs cov %s" % (f['target'], f['executed_units'], f['edges_covered']) for f in fz))
PY
    return $rc
}

cmd="${1:-}"
case "$cmd" in
    build)
        build
        ;;
    check)
        id="${2:?property id}"
        tier="${3:-${VERIF_TIER:-quick}}"
        build
        shift 3 2>/dev/null || shift $#
        targets="$(fuzz_targets_for "$id")"
        if [ "$tier" != "thorough" ] || [ -z "$targets" ] || [ "${VERIF_NO_FUZZ:-0}" = "1" ]; then
            exec "$TARGET/release/vcheck" "$id" --tier "$tier" "$@"
        fi
        "$TARGET/release/vcheck" "$id" --tier "$tier" "$@"
        code=$?
        [ $code -ne 0 ] && exit $code
        fuzz_campaign "$id" "$targets"
        exit $?
        ;;
    replay)
        build
        exec "$TARGET/release/vcheck" replay "${2:?replay file}"
        ;;
    *)
        echo "usage: $0 build | check <Cxx> [quick|thorough] | replay <file>" >&2
        exit 2
        ;;
esac
