#![no_main]
use libfuzzer_sys::fuzz_target;

fuzz_target!(|data: &[u8]| {
    vkit::targets::pt_model_client(data);
});
